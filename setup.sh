#!/bin/sh
# Builds the verification harness against /repo (offline) and syntax-checks every specification.
set -e
cd "$(dirname "$0")"
mkdir -p work evidence replays
cp /repo/Cargo.lock harness/Cargo.lock
(cd harness && CARGO_NET_OFFLINE=true cargo build --offline 2>&1 | tail -3)
cd specs
for f in *.tla; do
  tla-sany "$f" > ../work/sany.out 2>&1 || { cat ../work/sany.out; echo "SANY failed on $f"; exit 1; }
  if grep -q "^\*\*\* Errors\|Semantic errors\|Parsing or semantic" ../work/sany.out; then cat ../work/sany.out; echo "SANY failed on $f"; exit 1; fi
done
cd ..
echo "setup ok"
