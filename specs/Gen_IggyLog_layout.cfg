SPECIFICATION MCSpec
CONSTANTS
    NParts = 1
    KeySet = {"c1"}
    GroupKeys = {}
    DedupOn = FALSE
    IdSet = {0}
    MaxLen = 6
    MaxBatch = 3
    MaxNow = 0
    ExpirySet = {0}
    Threshold = 2
    SegCap = 4
    MaxOps = 5
    Ops = {"append","flush","bg_save","restart","purge"}
CHECK_DEADLOCK FALSE
CONSTRAINT Bounded
INVARIANT EmitScript
