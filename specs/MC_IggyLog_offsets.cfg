SPECIFICATION MCSpec
CONSTANTS
    NParts = 2
    KeySet = {"c1","c2","g1"}
    GroupKeys = {"g1"}
    DedupOn = FALSE
    IdSet = {0}
    MaxLen = 3
    MaxBatch = 2
    MaxNow = 0
    ExpirySet = {0}
    Threshold = 1000
    SegCap = 1000
    MaxOps = 5
    Ops = {"append","store","del_offset","poll_next","purge","restart","group"}
VIEW View
CHECK_DEADLOCK FALSE
CONSTRAINT Bounded
INVARIANTS TypeOK DedupOnce AllSlicesShaped SegsCoverLog
PROPERTIES LogGrows LoMoves StoredIsolated
