------------------------------ MODULE IggyGroups ------------------------------
(***************************************************************************)
(* One consumer group on one topic (C08, and the group side of C07).       *)
(* The assignment of partitions to members is specified RELATIONALLY       *)
(* (exclusive, balanced); which member gets which partition is the         *)
(* implementation's choice and is an action parameter.  Polling without    *)
(* naming a partition serves a member from its own share, in rotation,     *)
(* with 'next' semantics on the group's shared offset.                     *)
(***************************************************************************)
EXTENDS Integers, Sequences, FiniteSets, TLC

None == -1

VARIABLES
    P,         \* number of partitions
    len,       \* [1..P -> Nat]   messages in each partition (offsets 0..len-1)
    goff,      \* [1..P -> Int]   the group's stored offset per partition (None = nothing stored)
    members,   \* set of member ids (clients that joined and are still connected)
    share,     \* [member -> SUBSET 1..P]   current assignment
    recent,    \* [member -> Seq(partition)] partitions served to the member since the last rebalance (last |share| kept)
    lastp      \* [member -> partition or 0] partition of the member's most recent poll since the last rebalance

vars == <<P, len, goff, members, share, recent, lastp>>

(* C08: every partition belongs to exactly one member of a non-empty group, shares differ by at most one *)
ExclusiveBalanced(sh, mem, n) ==
    /\ DOMAIN sh = mem
    /\ \A m \in mem : sh[m] \subseteq 1..n
    /\ mem # {} => /\ UNION { sh[m] : m \in mem } = 1..n
                   /\ \A a, b \in mem : a # b => sh[a] \cap sh[b] = {}
                   /\ \A a, b \in mem : Cardinality(sh[a]) - Cardinality(sh[b]) \in {-1, 0, 1}

(* rebalance: membership or partition count changed; sh2 is the implementation's new assignment *)
Rebalance(mem2, n2, sh2) ==
    /\ members' = mem2 /\ P' = n2 /\ share' = sh2
    /\ recent' = [m \in mem2 |-> <<>>]
    /\ lastp' = [m \in mem2 |-> 0]

Join(c, sh2) == Rebalance(members \cup {c}, P, sh2) /\ UNCHANGED <<len, goff>>
Leave(c, sh2) == Rebalance(members \ {c}, P, sh2) /\ UNCHANGED <<len, goff>>
AddPartitions(k, sh2) ==
    /\ Rebalance(members, P + k, sh2)
    /\ len' = [p \in 1..(P + k) |-> IF p <= P THEN len[p] ELSE 0]
    /\ goff' = [p \in 1..(P + k) |-> IF p <= P THEN goff[p] ELSE None]
RemovePartitions(k, sh2) ==
    LET n == IF k > P THEN 0 ELSE P - k IN
    /\ Rebalance(members, n, sh2)
    /\ len' = [p \in 1..n |-> len[p]]
    /\ goff' = [p \in 1..n |-> goff[p]]
Send(p, k) == len' = [len EXCEPT ![p] = @ + k] /\ UNCHANGED <<P, goff, members, share, recent, lastp>>

(* what a 'next' poll of partition p with count n returns: the offsets after the stored one *)
NextOffsets(p, n) ==
    LET from == goff[p] + 1
        to == IF from + n <= len[p] THEN from + n ELSE len[p]
    IN [i \in 1..(to - from) |-> from + i - 1]

(* C08: the partition a poll of member m may be served from: its own share, and not one it was served from *)
(* in its last |share|-1 polls (each partition of the share in turn)                                      *)
MayServe(m, p) ==
    /\ p \in share[m]
    /\ \A i \in 1..Len(recent[m]) : i > Len(recent[m]) - (Cardinality(share[m]) - 1) => recent[m][i] # p

Poll(m, p, n, auto) ==
    LET r == NextOffsets(p, n) IN
    /\ goff' = IF auto /\ Len(r) > 0 THEN [goff EXCEPT ![p] = r[Len(r)]] ELSE goff
    /\ recent' = [recent EXCEPT ![m] = LET h == Append(@, p) k == Cardinality(share[m]) IN
                                          SubSeq(h, (IF Len(h) > k THEN Len(h) - k + 1 ELSE 1), Len(h))]
    /\ lastp' = [lastp EXCEPT ![m] = p]
    /\ UNCHANGED <<P, len, members, share>>
(* a member without partitions (more members than partitions) gets nothing *)
PollNothing(m) == UNCHANGED vars

(* a member stores an offset without naming a partition: it belongs to the partition of its latest poll *)
StoreLast(m, o) ==
    /\ goff' = [goff EXCEPT ![lastp[m]] = o]
    /\ UNCHANGED <<P, len, members, share, recent, lastp>>

Restart ==
    /\ members' = {} /\ share' = <<>> /\ recent' = <<>> /\ lastp' = <<>>
    /\ UNCHANGED <<P, len, goff>>

TypeOK ==
    /\ DOMAIN len = 1..P /\ DOMAIN goff = 1..P
    /\ \A p \in 1..P : goff[p] \in -1..(len[p] - 1) \/ (len[p] = 0 /\ goff[p] \in {-1, 0})
Assigned == ExclusiveBalanced(share, members, P)
=============================================================================
