---------------------------- MODULE MC_IggyGroups ----------------------------
(* Bounded instance of IggyGroups: every exclusive balanced assignment, every rotation the relation allows. *)
EXTENDS IggyGroups, Json

CONSTANTS P0, MaxP, Clients, MaxLen, MaxOps, Ops
VARIABLES delivered,   \* ghost: [1..P -> Seq(offset)] what the group as a whole was handed (auto-commit polls only)
          hist
mvars == <<vars, delivered, hist>>
Record(op) == hist' = Append(hist, op)

Assignments(mem, n) == { sh \in [mem -> SUBSET (1..n)] : ExclusiveBalanced(sh, mem, n) }

MCInit ==
    /\ P = P0 /\ len = [p \in 1..P0 |-> 0] /\ goff = [p \in 1..P0 |-> None]
    /\ members = {} /\ share = <<>> /\ recent = <<>> /\ lastp = <<>>
    /\ delivered = [p \in 1..P0 |-> <<>>] /\ hist = <<>>

MCJoin ==
    /\ "join" \in Ops
    /\ \E c \in Clients \ members : \E sh \in Assignments(members \cup {c}, P) :
        Join(c, sh) /\ UNCHANGED delivered /\ Record([op |-> "join", c |-> c])
MCLeave ==
    /\ \E c \in members : \E sh \in Assignments(members \ {c}, P) : \E kind \in {"leave", "disconnect"} \cap Ops :
        Leave(c, sh) /\ UNCHANGED delivered /\ Record([op |-> kind, c |-> c])
MCAdd ==
    /\ "add_parts" \in Ops /\ P < MaxP
    /\ \E sh \in Assignments(members, P + 1) :
        /\ AddPartitions(1, sh) /\ delivered' = [p \in 1..(P + 1) |-> IF p <= P THEN delivered[p] ELSE <<>>]
        /\ Record([op |-> "add_parts", k |-> 1])
MCDel ==
    /\ "del_parts" \in Ops /\ P > 0
    /\ \E k \in {1, P + 1} : \E sh \in Assignments(members, IF k > P THEN 0 ELSE P - k) :
        /\ RemovePartitions(k, sh) /\ delivered' = [p \in 1..P' |-> delivered[p]]
        /\ Record([op |-> "del_parts", k |-> k])
MCSend ==
    /\ "send" \in Ops
    /\ \E p \in 1..P : \E k \in {1, 2} :
        len[p] + k <= MaxLen /\ Send(p, k) /\ UNCHANGED delivered /\ Record([op |-> "send", p |-> p, k |-> k])
MCPoll ==
    /\ "poll" \in Ops
    /\ \E m \in members : \E n \in {1, 2} : \E auto \in BOOLEAN :
        /\ IF share[m] = {} THEN PollNothing(m) /\ UNCHANGED delivered
           ELSE \E p \in share[m] :
                  /\ MayServe(m, p) /\ Poll(m, p, n, auto)
                  /\ delivered' = IF auto THEN [delivered EXCEPT ![p] = @ \o NextOffsets(p, n)] ELSE delivered
        /\ Record([op |-> "poll", c |-> m, n |-> n, auto |-> auto])
MCStoreLast ==
    /\ "store_last" \in Ops
    /\ \E m \in members :
        /\ lastp[m] \in 1..P /\ hist[Len(hist)].op = "poll" /\ hist[Len(hist)].c = m /\ ~hist[Len(hist)].auto
        /\ Len(NextOffsets(lastp[m], hist[Len(hist)].n)) > 0
        /\ LET r == NextOffsets(lastp[m], hist[Len(hist)].n) IN
             /\ StoreLast(m, r[Len(r)])
             /\ delivered' = [delivered EXCEPT ![lastp[m]] = @ \o r]
        /\ Record([op |-> "store_last", c |-> m])
MCRestart ==
    /\ "restart" \in Ops /\ Len(hist) > 0 /\ hist[Len(hist)].op # "restart"
    /\ Restart /\ UNCHANGED delivered /\ Record([op |-> "restart"])

MCNext == MCJoin \/ MCLeave \/ MCAdd \/ MCDel \/ MCSend \/ MCPoll \/ MCStoreLast \/ MCRestart
Bounded == Len(hist) <= MaxOps
MCSpec == MCInit /\ [][MCNext]_mvars
View == <<vars, delivered>>

(* C08: whoever polls and however membership changes, the group is handed each partition's messages in offset order, none twice *)
GroupExactlyOnce == \A p \in 1..P : \A i \in 1..Len(delivered[p]) : delivered[p][i] = i - 1
(* C08: between rebalances a member visits every partition of its share in turn *)
RotationFair == \A m \in members : \A i, j \in 1..Len(recent[m]) :
                    (i < j /\ j - i < Cardinality(share[m])) => recent[m][i] # recent[m][j]
EmitScript == Len(hist) = 0 \/ PrintT(<<"SCRIPT", ToJson(hist)>>)
=============================================================================
