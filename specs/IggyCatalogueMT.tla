--------------------------- MODULE IggyCatalogueMT ---------------------------
(***************************************************************************)
(* Administrative commands issued by several clients AT ONCE (C05): the    *)
(* order in which the acknowledged commands reach the journal must be an   *)
(* order in which the replay can apply them, and must lead to the same     *)
(* catalogue.  The lock discipline of the handlers, as coded:              *)
(*   - a command takes the system lock exclusively (create, update,        *)
(*     delete ...) or shared (as found: purge_topic, purge_stream) for     *)
(*     its effect;                                                         *)
(*   - an exclusive command DOWNGRADES to shared before it journals, a     *)
(*     shared one journals while holding the shared lock;                  *)
(*   - the journal serializes the appends themselves (fix b78bbc1).        *)
(* Between the downgrade and the journal entry of a create, a shared       *)
(* command can do its effect AND journal - before the create it depends    *)
(* on.  The replay (state/system.rs) panics on a purge of an entity it     *)
(* has not seen created: the server no longer starts.                      *)
(***************************************************************************)
EXTENDS Integers, Sequences, FiniteSets, TLC
CONSTANTS Inst,            \* instances of each command (2: an entity can be deleted and created again)
          Topics,          \* entities
          PurgeExclusive,  \* TRUE: purge takes the lock exclusively (repaired); FALSE: shared (as found)
          ReleaseEarly     \* kinds of command that give the lock up BEFORE they journal instead of downgrading ({} as coded; a
                           \* handler that re-acquires the shared lock for its journal entry is a second negative control)
Kinds == {"create", "purge", "delete"}
Cmds == Kinds \X Topics \X Inst
VARIABLES exists,    \* topics that exist (the in-memory catalogue)
          readers,   \* commands holding the system lock shared (after their effect / downgrade)
          pc,        \* [Cmds -> {"idle", "journal", "done", "refused"}]
          journal    \* sequence of commands in the state journal
vars == <<exists, readers, pc, journal>>

NeedsExclusive(c) == c[1] \in {"create", "delete"} \/ (c[1] = "purge" /\ PurgeExclusive)
Applicable(c, ex) == IF c[1] = "create" THEN c[2] \notin ex ELSE c[2] \in ex
EffectOn(c, ex) == IF c[1] = "create" THEN ex \cup {c[2]} ELSE IF c[1] = "delete" THEN ex \ {c[2]} ELSE ex

Init == exists = {} /\ readers = {} /\ pc = [c \in Cmds |-> "idle"] /\ journal = <<>>

(* the handler takes the lock, performs the effect (or is refused) and - if exclusive - downgrades: one atomic step, *)
(* because nobody else can run while the lock is held exclusively                                                   *)
Begin(c) ==
    /\ pc[c] = "idle"
    /\ NeedsExclusive(c) => readers = {}
    /\ IF Applicable(c, exists)
       THEN /\ exists' = EffectOn(c, exists) /\ pc' = [pc EXCEPT ![c] = "journal"]
            /\ readers' = IF c[1] \in ReleaseEarly THEN readers ELSE readers \cup {c}
       ELSE UNCHANGED <<exists, readers>> /\ pc' = [pc EXCEPT ![c] = "refused"]
    /\ UNCHANGED journal
(* the command is journalled (appends are serialized) and acknowledged; the shared lock is released *)
Journal(c) ==
    /\ pc[c] = "journal"
    /\ journal' = Append(journal, c) /\ readers' = readers \ {c} /\ pc' = [pc EXCEPT ![c] = "done"]
    /\ UNCHANGED exists
Next == \E c \in Cmds : Begin(c) \/ Journal(c)
Spec == Init /\ [][Next]_vars

(* the replay of state/system.rs: every entry must be applicable to what the entries before it produced *)
RECURSIVE ReplayFrom(_, _, _)
ReplayFrom(j, i, ex) == IF i > Len(j) THEN <<TRUE, ex>>
                        ELSE IF ~Applicable(j[i], ex) THEN <<FALSE, ex>>
                        ELSE ReplayFrom(j, i + 1, EffectOn(j[i], ex))
Replay(j) == ReplayFrom(j, 1, {})
Replayable == Replay(journal)[1]
Quiescent == \A c \in Cmds : pc[c] # "journal"
SameCatalogue == Quiescent => Replay(journal)[2] = exists
=============================================================================
