--------------------------- MODULE Trace_IggyTopic ---------------------------
(***************************************************************************)
(* Trace validation for the topic lens (harness/src/topic_lens.rs).        *)
(* Same monitor style as Trace_IggyLog: the specification state advances   *)
(* from the logged inputs; where a property leaves the implementation a    *)
(* choice (which partition a key or a balanced send lands in) the choice   *)
(* is read off the sweep and judged by MayLand.                            *)
(***************************************************************************)
EXTENDS IggyTopic, Json, IOUtils

Rec == ndJsonDeserialize(IOEnv.TRACE)

VARIABLES l, dead, bad
tvars == <<vars, l, dead, bad>>

Ok(e) == e.res = "ok"
MsSet(e) == { e.ms[i] : i \in 1..Len(e.ms) }
NormSegs(js) == [i \in 1..Len(js) |-> [start |-> js[i].start, closed |-> js[i].closed]]
SegsOf(e) == [p \in 1..Len(e.obs.proj.parts) |-> NormSegs(e.obs.proj.parts[p].segs)]
Landed(e) == { p \in 1..Len(e.obs.parts) :
                 \E i \in 1..Len(e.obs.parts[p].read) : e.obs.parts[p].read[i][2] \in MsSet(e) }
SumTo(f, n) == LET s[i \in 0..n] == IF i = 0 THEN 0 ELSE s[i - 1] + f[i] IN s[n]

(* labels of the sweep, on the post-state *)
SweepLabels(e) ==
    LET ob == e.obs
        n == Len(ob.parts)
        badRead  == { p \in 1..n : p <= P' /\ ob.parts[p].read # [i \in 1..(Len(plog'[p]) - plo'[p]) |-> <<plo'[p] + i - 1, plog'[p][plo'[p] + i]>>] }
        badCount == { p \in 1..n : p <= P' /\ ob.parts[p].count # Len(plog'[p]) - plo'[p] }
        badCur   == { p \in 1..n : p <= P' /\ (ob.parts[p].cur # (IF Len(plog'[p]) = 0 THEN 0 ELSE Len(plog'[p]) - 1) \/ ob.parts[p].tcur # ob.parts[p].cur) }
        badSize  == { p \in 1..n : p <= Len(ob.proj.parts) /\ ob.proj.parts[p].unsaved = 0 /\ ob.parts[p].size # ob.proj.parts[p].disk }
        badNsegs == { p \in 1..n : p <= Len(ob.proj.parts) /\ ob.parts[p].nsegs # Len(ob.proj.parts[p].segs) }
        psum == SumTo([p \in 1..n |-> ob.parts[p].size], n)
        csum == SumTo([p \in 1..n |-> ob.parts[p].count], n)
    IN  (IF n # P' \/ ob.topic.nparts # P' \/ \E p \in 1..n : ob.parts[p].id # p THEN {<<"C17.partitions", n, P'>>} ELSE {})
        \cup (IF badRead # {} THEN {<<"C17.read", CHOOSE p \in badRead : TRUE>>} ELSE {})
        \cup (IF badCur # {} THEN {<<"C01.cur", CHOOSE p \in badCur : TRUE>>} ELSE {})
        \cup (IF badCount # {} THEN {<<"C16.count", CHOOSE p \in badCount : TRUE>>} ELSE {})
        \cup (IF badSize # {} THEN {<<"C16.size", CHOOSE p \in badSize : TRUE>>} ELSE {})
        \cup (IF badNsegs # {} THEN {<<"C16.nsegs", CHOOSE p \in badNsegs : TRUE>>} ELSE {})
        \cup (IF ob.topic.count # csum \/ ob.topic.size # psum THEN {<<"C16.topic_sum", ob.topic.count, csum, ob.topic.size, psum>>} ELSE {})
        \cup (IF ob.t2.count # others'["t2"] \/ ob.s2.count # others'["s2"] THEN {<<"C16.others">>} ELSE {})
        \cup (IF ob.s1.count # ob.topic.count + ob.t2.count \/ ob.s1.size # ob.topic.size + ob.t2.size
                 \/ ob.s1.count # ob.s1.tsum_count \/ ob.s1.size # ob.s1.tsum_size
              THEN {<<"C16.stream_sum", ob.s1.count, ob.topic.count + ob.t2.count>>} ELSE {})
        \cup (IF ob.stats.messages # ob.s1.count + ob.s2.count \/ ob.stats.size # ob.s1.size + ob.s2.size
              THEN {<<"C16.stats_sum", ob.stats.messages, ob.s1.count + ob.s2.count>>} ELSE {})
        \cup (IF ob.stats.streams # ob.proj.streams \/ ob.stats.topics # ob.proj.topics
                 \/ ob.stats.partitions # ob.proj.partitions \/ ob.stats.segments # ob.proj.segments
              THEN {<<"C16.stats_counts", ob.stats.segments, ob.proj.segments, ob.stats.partitions, ob.proj.partitions>>} ELSE {})
        \cup (IF ob.topic.limit # limit' THEN {<<"C15.limit_reported", ob.topic.limit, limit'>>} ELSE {})

LayoutLabels(e, purged) ==
    IF purged THEN {}
    ELSE LET sg2 == SegsOf(e) IN
         UNION { IF p <= Len(sg2) /\ ~OldestOK(segs[p], sg2[p], e.ev = "maintain") THEN {<<"C15.oldest", p>>} ELSE {}
                 : p \in 1..P }

Reset(e) ==
    /\ P' = e.parts
    /\ plog' = [p \in 1..e.parts |-> <<>>]
    /\ plo' = [p \in 1..e.parts |-> 0]
    /\ segs' = [p \in 1..e.parts |-> <<[start |-> 0, closed |-> FALSE]>>]
    /\ keyMap' = {} /\ balHist' = <<>>
    /\ limit' = e.limit /\ delOldest' = e.del_oldest /\ segBytes' = e.seg_bytes
    /\ tsize' = 0
    /\ others' = [w \in {"t2", "s2"} |-> 0]
    /\ dead' = FALSE /\ bad' = {}

Fatal(e) == UNCHANGED vars /\ dead' = TRUE /\ bad' = {<<"X.fatal", e.ev, e.fatal>>}
Skip == UNCHANGED <<vars, dead>> /\ bad' = {}

(* the partition an acknowledged send is taken to have landed in (for advancing the state) *)
Target(e) == IF Landed(e) = {} THEN 0 ELSE CHOOSE p \in Landed(e) : \A q \in Landed(e) : p <= q

Input(e) ==
    CASE e.ev = "send" ->
            IF Ok(e) /\ Target(e) \in 1..P THEN Send(e.kind, e.v, e.ms, Target(e)) ELSE Nothing
      [] e.ev = "send_other" -> IF Ok(e) THEN SendOther(e.which, e.k) ELSE Nothing
      [] e.ev = "add_parts" -> IF Ok(e) THEN AddPartitions(e.k) ELSE Nothing
      [] e.ev = "del_parts" -> IF Ok(e) THEN RemovePartitions(e.k) ELSE Nothing
      [] e.ev = "set_limit" -> IF Ok(e) THEN SetLimit(e.bytes) ELSE Nothing
      [] e.ev = "purge" -> IF Ok(e) THEN Purge ELSE Nothing
      [] e.ev = "purge_stream" ->
            IF Ok(e) THEN /\ plog' = [i \in 1..P |-> <<>>]
                          /\ others' = [others EXCEPT !["t2"] = 0]
                          /\ UNCHANGED <<P, keyMap, balHist, limit, delOldest, segBytes>>
            ELSE Nothing
      [] e.ev = "del_other" ->
            IF Ok(e) THEN /\ others' = [others EXCEPT ![e.which] = -1]
                          /\ UNCHANGED <<P, plog, keyMap, balHist, limit, delOldest, segBytes>>
            ELSE Nothing
      [] e.ev = "restart" -> Restart
      [] OTHER -> Nothing

InputLabels(e) ==
    CASE e.ev = "send" ->
            IF InvalidTarget(e.kind, e.v)
            THEN (IF Ok(e) THEN {<<"C17.invalid_accepted", e.v>>} ELSE {})
            ELSE IF MustRefuse
            THEN (IF Ok(e) THEN {<<"C15.gate_accepted", tsize, limit>>}
                  ELSE IF e.res # "err:topic_full" THEN {<<"C15.gate_error", e.res>>} ELSE {})
            ELSE IF ~Ok(e) THEN (IF e.res = "err:topic_full" THEN {<<"C15.gate_refused", e.res, tsize, limit, delOldest>>}
                                 \* a send that names an existing partition, a key or nothing must land on an existing partition
                                 ELSE {<<"C17.valid_send_refused", e.kind, e.res>>})
            ELSE (IF Cardinality(Landed(e)) # 1 THEN {<<"C17.landing", Cardinality(Landed(e))>>} ELSE {})
                 \cup (IF Landed(e) # {} /\ ~MayLand(e.kind, e.v, Target(e)) THEN {<<"C17.mayland", e.kind, Target(e)>>} ELSE {})
      [] e.ev = "set_limit" ->
            IF Ok(e) # LimitAllowed(e.bytes) THEN {<<"C15.limit_validation", e.bytes, e.res>>} ELSE {}
      [] e.ev \in {"add_parts", "del_parts", "purge", "purge_stream", "send_other", "flush_all", "maintain", "del_other"} ->
            IF Ok(e) THEN {} ELSE {<<"X.refused", e.ev, e.res>>}
      [] e.ev = "restart" -> IF Ok(e) THEN {} ELSE {<<"C03.shutdown", e.res>>}
      [] OTHER -> {}

Step(e) ==
    /\ Input(e)
    /\ Layout([p \in 1..P' |-> IF p <= Len(SegsOf(e)) THEN SegsOf(e)[p] ELSE <<>>],
              (e.ev \in {"purge", "purge_stream"}) /\ Ok(e))
    /\ tsize' = e.obs.topic.size
    /\ dead' = dead
    /\ bad' = InputLabels(e) \cup LayoutLabels(e, (e.ev \in {"purge", "purge_stream"}) /\ Ok(e)) \cup SweepLabels(e)

TraceInit ==
    /\ l = 1 /\ dead = TRUE /\ bad = {}
    /\ P = 0 /\ plog = <<>> /\ plo = <<>> /\ segs = <<>> /\ keyMap = {} /\ balHist = <<>>
    /\ limit = 0 /\ delOldest = FALSE /\ segBytes = 0 /\ tsize = 0 /\ others = [w \in {"t2", "s2"} |-> 0]

TraceNext ==
    /\ l <= Len(Rec)
    /\ l' = l + 1
    /\ LET e == Rec[l] IN
       IF e.ev = "reset" THEN Reset(e)
       ELSE IF dead THEN Skip
       ELSE IF "fatal" \in DOMAIN e THEN Fatal(e)
       ELSE Step(e)

TraceSpec == TraceInit /\ [][TraceNext]_tvars

NoBad == bad = {} \/ PrintT("BAD " \o ToJson([line |-> l - 1, sc |-> Rec[l - 1].sc, i |-> Rec[l - 1].i,
                                                    ev |-> Rec[l - 1].ev, labels |-> bad]))
TraceAccepted ==
    IF TLCGet("stats").diameter - 1 = Len(Rec) THEN PrintT(<<"CONSUMED", Len(Rec)>>)
    ELSE Print(<<"STUCK at line", TLCGet("stats").diameter>>, FALSE)
=============================================================================
