SPECIFICATION MCSpec
CONSTANTS
    NParts = 1
    KeySet = {"c1"}
    GroupKeys = {}
    DedupOn = FALSE
    IdSet = {0}
    MaxLen = 5
    MaxBatch = 2
    MaxNow = 2
    ExpirySet = {0,1}
    Threshold = 1
    SegCap = 2
    MaxOps = 7
    Ops = {"append","restart","tick","set_expiry","retention"}
VIEW View
CHECK_DEADLOCK FALSE
CONSTRAINT Bounded
INVARIANTS TypeOK DedupOnce AllSlicesShaped SegsCoverLog
PROPERTIES LogGrows LoMoves StoredIsolated
