---------------------------- MODULE Trace_IggyAuth ----------------------------
(* Trace validation for the authentication lens (harness/src/auth_lens.rs): after every step a login is attempted    *)
(* with EVERY candidate credential (each user name x each password ever used, every token ever issued) over TCP      *)
(* (and HTTP), every connection is probed, and every file of the data directory is scanned for every raw secret.     *)
EXTENDS IggyAuth, Json, IOUtils

Rec == ndJsonDeserialize(IOEnv.TRACE)
VARIABLES l, dead, bad
tvars == <<vars, l, dead, bad>>
Ok(e) == e.res = "ok"

Allowed(e) ==
    CASE e.ev = "login" -> PasswordValid(e.name, e.pwd)
      [] e.ev = "login_pat" -> TokenValid(e.tok)
      [] e.ev = "logout" -> Authenticated(e.c)
      [] e.ev = "create_user" -> CanCreateUser(e.c, e.name)
      [] e.ev = "change_password" -> CanChangePassword(e.c, e.name, e.cur)
      [] e.ev = "set_status" -> CanSetStatus(e.c, e.name)
      [] e.ev = "delete_user" -> CanDeleteUser(e.c, e.name)
      [] e.ev = "create_pat" -> CanCreateToken(e.c)
      [] e.ev = "delete_pat" -> CanDeleteToken(e.c, e.tok)
      [] OTHER -> TRUE

Effect(e) ==
    CASE e.ev = "login" -> Login(e.c, e.name, e.pwd)
      [] e.ev = "login_pat" -> IF \E k \in toks : k[1] = e.tok THEN LoginToken(e.c, e.tok) ELSE Refused
      [] e.ev = "logout" -> Logout(e.c)
      [] e.ev = "create_user" -> CreateUser(e.name, e.pwd, e.active)
      [] e.ev = "change_password" -> IF Exists(e.name) THEN ChangePassword(e.name, e.new) ELSE Refused
      [] e.ev = "set_status" -> IF Exists(e.name) THEN SetStatus(e.name, e.active) ELSE Refused
      [] e.ev = "delete_user" -> DeleteUser(e.name)
      [] e.ev = "create_pat" -> IF Exists(sess[e.c]) THEN CreateToken(e.c, e.tok, e.ttl) ELSE Refused
      [] e.ev = "delete_pat" -> DeleteToken(e.tok)
      [] e.ev = "tick" -> Tick(e.by)
      [] e.ev = "clean" -> CleanExpired
      [] e.ev = "restart" -> Restart(1)
      [] OTHER -> Refused

InputLabels(e) ==
    (* (the logout of a connection whose user has been deleted meanwhile may answer either way: the property speaks of the    *)
    (*  connection's state, which the probe observes - such a connection can do nothing that needs an existing user)         *)
    (IF e.ev \notin {"tick", "clean", "restart"} /\ Ok(e) # Allowed(e)
        /\ ~(e.ev = "logout" /\ Authenticated(e.c) /\ ~Exists(sess[e.c]))
        \* (the property says when a login may succeed ("only for ..."), not that it must: a connection still authenticated as a
        \*  user that has been deleted is refused a new login by the server until it reconnects - accepted, never the converse)
        /\ ~(e.ev \in {"login", "login_pat"} /\ sess[e.c] = Gone /\ ~Ok(e))
     THEN {<<"C10.outcome", e.ev, e.res, Allowed(e)>>} ELSE {})
    \cup (IF e.ev = "restart" /\ ~Ok(e) THEN {<<"C10.restart", e.res>>} ELSE {})
    \cup (IF e.res \in {"panic", "closed"} THEN {<<"X.panic", e.ev, e.res>>} ELSE {})

SweepLabels(e) ==
    LET ob == e.obs
        badLogin == { i \in 1..Len(ob.logins) : ob.logins[i][3] # PasswordValidS(users', ob.logins[i][1], ob.logins[i][2]) }
        badHttp  == { i \in 1..Len(ob.http_logins) : ob.http_logins[i][3] # PasswordValidS(users', ob.http_logins[i][1], ob.http_logins[i][2]) }
        badPat   == { i \in 1..Len(ob.pats) : ob.pats[i][2] # TokenValidS(users', toks', now', ob.pats[i][1]) }
        badHPat  == { i \in 1..Len(ob.http_pats) : ob.http_pats[i][2] # TokenValidS(users', toks', now', ob.http_pats[i][1]) }
        (* a connection that never logged in or logged out must be refused; one that logged in as a user that still exists must be served *)
        badProbe == { i \in 1..Len(ob.probe) :
                        \/ (sess'[ob.probe[i][1]] = "" /\ ob.probe[i][2])
                        \/ (sess'[ob.probe[i][1]] # "" /\ ActiveS(users', sess'[ob.probe[i][1]]) /\ ~ob.probe[i][2]) }
    IN  (IF badLogin # {} THEN {<<"C10.login", ob.logins[CHOOSE i \in badLogin : TRUE]>>} ELSE {})
        \cup (IF badHttp # {} THEN {<<"C10.http_login", ob.http_logins[CHOOSE i \in badHttp : TRUE]>>} ELSE {})
        \cup (IF badPat # {} THEN {<<"C10.token_login", ob.pats[CHOOSE i \in badPat : TRUE]>>} ELSE {})
        \cup (IF badHPat # {} THEN {<<"C10.http_token_login", ob.http_pats[CHOOSE i \in badHPat : TRUE]>>} ELSE {})
        \cup (IF badProbe # {} THEN {<<"C10.session", ob.probe[CHOOSE i \in badProbe : TRUE]>>} ELSE {})
        \cup (IF ob.secret_hits # 0 THEN {<<"C10.secret_on_disk", ob.secret_hits, ob.secret_where>>} ELSE {})

Reset(e) ==
    /\ users' = {<<Root, "iggy", TRUE>>} /\ toks' = {} /\ now' = 0
    /\ sess' = [c \in 1..e.conns |-> IF c = 1 THEN Root ELSE ""]
    /\ dead' = FALSE /\ bad' = {}
Fatal(e) == UNCHANGED vars /\ dead' = TRUE /\ bad' = {<<"X.fatal", e.ev, e.fatal>>}
Skip == UNCHANGED <<vars, dead>> /\ bad' = {}
Step(e) ==
    /\ IF Ok(e) \/ e.ev \in {"tick", "clean", "restart"} THEN Effect(e) ELSE Refused
    /\ dead' = dead
    /\ bad' = InputLabels(e) \cup SweepLabels(e)

TraceInit == l = 1 /\ dead = TRUE /\ bad = {} /\ users = {} /\ toks = {} /\ now = 0 /\ sess = <<>>
TraceNext ==
    /\ l <= Len(Rec) /\ l' = l + 1
    /\ LET e == Rec[l] IN
       IF e.ev = "reset" THEN Reset(e) ELSE IF dead THEN Skip ELSE IF "fatal" \in DOMAIN e THEN Fatal(e) ELSE Step(e)
TraceSpec == TraceInit /\ [][TraceNext]_tvars
NoBad == bad = {} \/ PrintT("BAD " \o ToJson([line |-> l - 1, sc |-> Rec[l - 1].sc, i |-> Rec[l - 1].i,
                                                    ev |-> Rec[l - 1].ev, labels |-> bad]))
TraceAccepted ==
    IF TLCGet("stats").diameter - 1 = Len(Rec) THEN PrintT(<<"CONSUMED", Len(Rec)>>)
    ELSE Print(<<"STUCK at line", TLCGet("stats").diameter>>, FALSE)
=============================================================================
