---------------------------- MODULE Trace_IggyPerm ----------------------------
(* Validation of the permission lens (harness/src/perm_lens.rs): decision-table lines, unauthenticated sweeps, op binding. *)
(* The lines are independent of each other (the only state is the list of rule names announced by the reset event).       *)
EXTENDS IggyPerm, Json, IOUtils

Rec == ndJsonDeserialize(IOEnv.TRACE)
VARIABLES l, rnames, bad
tvars == <<l, rnames, bad>>
SetOf(seq) == { seq[i] : i \in 1..Len(seq) }
(* sk = "both": the record for the target stream next to one for ANOTHER stream (fields os, ot), which the scoping rule ignores *)

GOf(rec) == SetOf(rec.g)
SOf(rec) == IF rec.sk \in {"target", "both"} THEN SetOf(rec.s) ELSE {}
TOf(rec) == IF rec.sk \in {"target", "both"} /\ rec.tk = "target" THEN SetOf(rec.t) ELSE {}

RuleLabels(e) ==
    LET g == GOf(e.rec)  s == SOf(e.rec)  t == TOf(e.rec)
        esc == { i \in 1..Len(e.d) : e.d[i] = 1 /\ ~Granted(rnames[i], g, s, t) }
        pan == { i \in 1..Len(e.d) : e.d[i] = 2 }
        mono == { <<k, i>> \in (1..Len(e.plus)) \X (1..Len(e.d)) : e.d[i] = 1 /\ e.plus[k].d[i] # 1 }
        panPlus == { <<k, i>> \in (1..Len(e.plus)) \X (1..Len(e.d)) : e.plus[k].d[i] = 2 }
    IN  (IF esc # {} THEN {<<"C09.escalation", rnames[CHOOSE i \in esc : TRUE], e.rec>>} ELSE {})
        \cup (IF pan # {} THEN {<<"C09.panic", rnames[CHOOSE i \in pan : TRUE], e.rec>>} ELSE {})
        \cup (IF panPlus # {} THEN LET p == CHOOSE p \in panPlus : TRUE IN {<<"C09.panic", rnames[p[2]], e.plus[p[1]].rec>>} ELSE {})
        \cup (IF mono # {} THEN LET p == CHOOSE p \in mono : TRUE IN {<<"C09.monotone", rnames[p[2]], e.rec, e.plus[p[1]].rec>>} ELSE {})
        \cup (IF "root" \in DOMAIN e /\ \E i \in 1..Len(e.d) : e.d[i] # 1 THEN {<<"C09.root_denied">>} ELSE {})

Public(transport) == IF transport = "http" THEN {"ping", "get_stats"} ELSE {"ping"}
UnauthLabels(e) ==
    (IF e.res = "ok" /\ e.op \notin Public(e.transport) THEN {<<"C09.unauthenticated_performed", e.transport, e.mode, e.op>>} ELSE {})
    \cup (IF ~e.unchanged THEN {<<"C09.unauthenticated_changed_state", e.transport, e.op>>} ELSE {})
    \* ("closed" is what the SDK reports when the server answered "unauthenticated": it drops the connection itself)

(* the rule an operation must consult, with the part of the record that applies to ITS target *)
OpGranted(e) ==
    LET g == GOf(e.rec)  s == SOf(e.rec)  t == TOf(e.rec) IN
    CASE e.op = "delete_stream" -> Granted("delete_stream", g, {}, {})       \* targets stream 9, for which the user has no record
      [] e.op = "delete_topic" -> Granted("delete_topic", g, s, {})          \* topic 9 of stream 1
      [] OTHER -> Granted(e.op, g, s, t)
OpLabels(e) ==
    (IF e.res = "ok" /\ ~OpGranted(e) THEN {<<"C09.op_escalation", e.op, e.rec>>} ELSE {})
    \cup (IF e.res \in {"panic", "closed"} THEN {<<"C09.crash", e.op, e.res>>} ELSE {})
RootLabels(e) ==
    (IF e.delete = "ok" THEN {<<"C09.root_deleted">>} ELSE {})
    \cup (IF e.strip = "ok" THEN {<<"C09.root_stripped">>} ELSE {})
    \cup (IF e.after # "ok" THEN {<<"C09.root_denied_after", e.after>>} ELSE {})

TraceInit == l = 1 /\ rnames = <<>> /\ bad = {}
TraceNext ==
    /\ l <= Len(Rec) /\ l' = l + 1
    /\ LET e == Rec[l] IN
       /\ rnames' = IF e.ev = "reset" /\ "rules" \in DOMAIN e THEN e.rules ELSE rnames
       /\ bad' = CASE e.ev = "rule" -> RuleLabels(e)
                   [] e.ev = "unauth" -> UnauthLabels(e)
                   [] e.ev = "op" -> OpLabels(e)
                   [] e.ev = "root" -> RootLabels(e)
                   [] OTHER -> {}
TraceSpec == TraceInit /\ [][TraceNext]_tvars
NoBad == bad = {} \/ PrintT("BAD " \o ToJson([line |-> l - 1, sc |-> Rec[l - 1].sc, i |-> Rec[l - 1].i,
                                                    ev |-> Rec[l - 1].ev, labels |-> bad]))
TraceAccepted ==
    IF TLCGet("stats").diameter - 1 = Len(Rec) THEN PrintT(<<"CONSUMED", Len(Rec)>>)
    ELSE Print(<<"STUCK at line", TLCGet("stats").diameter>>, FALSE)
=============================================================================
