------------------------- MODULE Trace_IggyCatalogue -------------------------
(***************************************************************************)
(* Trace validation for the catalogue lens (harness/src/cat_lens.rs):      *)
(* administrative commands over TCP or HTTP, by id or by name, with        *)
(* server- or client-chosen ids, restarts in between.  After every step    *)
(* the normalised answers of every get/list call, the message counts of    *)
(* every partition, the directory tree and the clients' memberships are    *)
(* compared with the relations of IggyCatalogue.                           *)
(***************************************************************************)
EXTENDS IggyCatalogue, Json, IOUtils, FiniteSetsExt

Rec == ndJsonDeserialize(IOEnv.TRACE)

VARIABLES l, dead, bad,
          tsets    \* the SETTINGS of every topic (compression, expiry, size limit, replication factor as the get calls must show
                   \* them): set by an acknowledged create_topic / update_topic, gone with the topic, untouched by anything else
tvars == <<vars, l, dead, bad, tsets>>

Ok(e) == e.res = "ok"
SetOf(seq) == { seq[i] : i \in 1..Len(seq) }

Sid(e) == StreamOf(e.s)
Tid(e) == IF Sid(e) = NoId THEN NoId ELSE TopicOf(Sid(e), e.t)
Gid(e) == IF Tid(e) = NoId THEN NoId ELSE GroupOf(Sid(e), Tid(e), e.g)
Uid(e) == UserOf(e.u)

(* what the specification says about the command's outcome on the pre-state *)
Allowed(e) ==
    CASE e.ev = "create_stream" -> CanCreateStream(e.id, e.name)
      [] e.ev = "update_stream" -> CanRenameStream(Sid(e), e.name)
      [] e.ev \in {"delete_stream", "purge_stream"} -> Sid(e) # NoId
      [] e.ev = "create_topic" -> CanCreateTopic(Sid(e), e.id, e.name)
      [] e.ev = "update_topic" -> CanRenameTopic(Sid(e), Tid(e), e.name)
      [] e.ev \in {"delete_topic", "purge_topic", "create_partitions", "delete_partitions"} -> Tid(e) # NoId
      [] e.ev = "create_group" -> CanCreateGroup(Sid(e), Tid(e), e.id, e.name)
      [] e.ev \in {"delete_group", "join", "leave"} -> Gid(e) # NoId
      [] e.ev = "send" -> Tid(e) # NoId /\ e.p \in 1..Parts(Sid(e), Tid(e))
      [] e.ev = "create_user" -> CanCreateUser(e.name)
      [] e.ev = "update_user" -> CanUpdateUser(Uid(e), e.name)
      [] e.ev = "delete_user" -> Uid(e) # NoId /\ Uid(e) # 1          \* the root user cannot be deleted
      [] OTHER -> TRUE

Effect(e) ==
    CASE e.ev = "create_stream" -> CreateStream(e.rid, e.name)
      [] e.ev = "update_stream" -> RenameStream(Sid(e), e.name)
      [] e.ev = "delete_stream" -> DeleteStream(Sid(e))
      [] e.ev = "purge_stream" -> PurgeStream(Sid(e))
      [] e.ev = "create_topic" -> CreateTopic(Sid(e), e.rid, e.name, e.parts)
      [] e.ev = "update_topic" -> RenameTopic(Sid(e), Tid(e), e.name)
      [] e.ev = "delete_topic" -> DeleteTopic(Sid(e), Tid(e))
      [] e.ev = "purge_topic" -> PurgeTopic(Sid(e), Tid(e))
      [] e.ev = "create_partitions" -> AddPartitions(Sid(e), Tid(e), e.k)
      [] e.ev = "delete_partitions" -> RemovePartitions(Sid(e), Tid(e), e.k)
      [] e.ev = "create_group" -> CreateGroup(Sid(e), Tid(e), e.rid, e.name)
      [] e.ev = "delete_group" -> DeleteGroup(Sid(e), Tid(e), Gid(e))
      [] e.ev = "join" -> Join(e.c, Sid(e), Tid(e), Gid(e))
      [] e.ev = "leave" -> Leave(e.c, Sid(e), Tid(e), Gid(e))
      [] e.ev = "disconnect" -> Disconnect(e.c)
      [] e.ev = "expire" -> Expire(e.c)
      [] e.ev = "send" -> SendTo(Sid(e), Tid(e), e.p, e.k)
      [] e.ev = "create_user" -> CreateUser(e.rid, e.name, e.active)
      [] e.ev = "update_user" -> UpdateUser(Uid(e), e.name, e.active)
      [] e.ev = "delete_user" -> DeleteUser(Uid(e))
      [] e.ev = "restart" -> Restart
      [] OTHER -> Refused

(* an acknowledged command is applied only when its target exists in the specification state (otherwise it is labelled) *)
Applicable(e) ==
    CASE e.ev \in {"update_stream", "delete_stream", "purge_stream", "create_topic"} -> Sid(e) # NoId
      [] e.ev \in {"update_topic", "delete_topic", "purge_topic", "create_partitions", "delete_partitions", "create_group", "send"} -> Tid(e) # NoId
      [] e.ev \in {"delete_group", "join", "leave"} -> Gid(e) # NoId
      [] e.ev \in {"update_user", "delete_user"} -> Uid(e) # NoId
      [] OTHER -> TRUE

InputLabels(e) ==
    (IF e.ev \notin {"restart", "disconnect", "expire"} /\ Ok(e) # Allowed(e)
     THEN {<<"C06.outcome", e.ev, e.res, Allowed(e)>>} ELSE {})
    \cup (IF e.ev = "restart" /\ ~Ok(e) THEN {<<"C05.restart", e.res>>} ELSE {})
    \cup (IF e.res \in {"panic", "closed"} THEN {<<"C06.panic", e.ev, e.res>>} ELSE {})
    \cup (IF Ok(e) /\ e.ev \in {"create_stream", "create_topic", "create_group"} /\ e.id # NoId /\ e.rid # e.id
          THEN {<<"C06.requested_id", e.ev, e.id, e.rid>>} ELSE {})
    \cup (IF Ok(e) /\ e.ev = "create_stream" /\ e.rid \in StreamIds THEN {<<"C06.id_reused", e.ev, e.rid>>} ELSE {})
    \cup (IF Ok(e) /\ e.ev = "create_topic" /\ Sid(e) # NoId /\ e.rid \in TopicIds(Sid(e)) THEN {<<"C06.id_reused", e.ev, e.rid>>} ELSE {})
    \cup (IF Ok(e) /\ e.ev = "create_group" /\ Tid(e) # NoId /\ e.rid \in GroupIds(Sid(e), Tid(e)) THEN {<<"C06.id_reused", e.ev, e.rid>>} ELSE {})
    \cup (IF Ok(e) /\ e.ev = "create_user" /\ e.rid \in UserIds THEN {<<"C06.id_reused", e.ev, e.rid>>} ELSE {})

Diff(name, obsSet, specSet) ==
    IF obsSet = specSet THEN {}
    ELSE {<<name, IF obsSet \ specSet # {} THEN CHOOSE x \in obsSet \ specSet : TRUE ELSE <<>>,
                  IF specSet \ obsSet # {} THEN CHOOSE x \in specSet \ obsSet : TRUE ELSE <<>> >>}

(* the settings after the step: an update replaces all of them (that is what update_topic names), a restart none *)
SetsAfter(e) ==
    LET alive == { x \in tsets : \E t \in T' : t[1] = x[1] /\ t[2] = x[2] }
        done == Ok(e) /\ Applicable(e) /\ "set" \in DOMAIN e
        key == IF ~done THEN <<NoId, NoId>> ELSE IF e.ev = "create_topic" THEN <<Sid(e), e.rid>> ELSE <<Sid(e), Tid(e)>>
    IN  IF done /\ e.ev \in {"create_topic", "update_topic"}
        THEN { x \in alive : <<x[1], x[2]>> # key } \cup {<<key[1], key[2], e.set>>}
        ELSE alive

(* C16: the statistics are exact entity counts: streams, topics, partitions, segments (one per partition in this lens), groups, messages *)
StatsAfter == << Cardinality(S'), Cardinality(T'), Cardinality(Cnt'), Cardinality(Cnt'), Cardinality(G'),
                 FoldSet(LAMBDA c, acc : acc + c[4], 0, Cnt') >>

SweepLabels(e) ==
    LET ob == e.obs IN
    (IF Len(ob.stats) = 6 /\ ob.stats # StatsAfter THEN {<<"CAT.stats", ob.stats, StatsAfter>>} ELSE {}) \cup
    (IF Len(ob.size_incons) > 0 THEN {<<"CAT.sizes", ob.size_incons[1]>>} ELSE {}) \cup
    Diff("CAT.settings", SetOf(ob.Tset), SetsAfter(e)) \cup
    Diff("CAT.streams", SetOf(ob.S), S')
    \cup Diff("CAT.topics", SetOf(ob.T), T')
    \cup Diff("CAT.groups", SetOf(ob.G), G')
    \cup Diff("CAT.messages", SetOf(ob.Cnt), Cnt')
    \cup Diff("CAT.users", SetOf(ob.U), U')
    \cup Diff("CAT.members", SetOf(ob.Mem), Mem')
    \cup Diff("CAT.dir_streams", SetOf(ob.dS), { <<s[1]>> : s \in S' })
    \cup Diff("CAT.dir_topics", SetOf(ob.dT), { <<t[1], t[2]>> : t \in T' })
    \cup Diff("CAT.dir_partitions", SetOf(ob.dP), { <<c[1], c[2], c[3]>> : c \in Cnt' })
    \cup (IF Len(ob.incons) > 0 THEN {<<"CAT.lookup", ob.incons[1]>>} ELSE {})
    \cup (IF ob.journal_hits # 0 THEN {<<"C19.journal_plaintext", ob.journal_hits>>} ELSE {})

Reset(e) ==
    /\ S' = {} /\ T' = {} /\ G' = {} /\ Cnt' = {} /\ Mem' = {}
    /\ U' = {<<1, "iggy", TRUE>>} /\ tsets' = {}
    /\ dead' = FALSE /\ bad' = {}

(* two clients at once (specs/IggyCatalogueMT.tla): both commands were acknowledged; the restart must succeed and reproduce *)
(* the catalogue, whatever order the two entries reached the journal in                                                    *)
Race(e) ==
    /\ UNCHANGED <<vars, tsets>> /\ dead' = TRUE
    /\ bad' = IF e.acks[1] = "ok" /\ e.acks[2] = "ok" /\ (e.restart # "ok" \/ ~e.same)
              THEN {<<"C05.concurrent_history_not_reproduced", e.pair, e.forced, e.restart>>} ELSE {}

Fatal(e) == UNCHANGED <<vars, tsets>> /\ dead' = TRUE /\ bad' = {<<"X.fatal", e.ev, e.fatal>>}
Skip == UNCHANGED <<vars, dead, tsets>> /\ bad' = {}

Step(e) ==
    /\ IF (Ok(e) /\ Applicable(e)) \/ e.ev \in {"restart", "disconnect", "expire"} THEN Effect(e) ELSE Refused
    /\ dead' = dead /\ tsets' = SetsAfter(e)
    /\ bad' = InputLabels(e) \cup SweepLabels(e)

TraceInit == l = 1 /\ dead = TRUE /\ bad = {} /\ tsets = {} /\ S = {} /\ T = {} /\ G = {} /\ Cnt = {} /\ U = {} /\ Mem = {}

TraceNext ==
    /\ l <= Len(Rec)
    /\ l' = l + 1
    /\ LET e == Rec[l] IN
       IF e.ev = "reset" THEN Reset(e)
       ELSE IF dead THEN Skip
       ELSE IF e.ev = "race" THEN Race(e)
       ELSE IF "fatal" \in DOMAIN e THEN Fatal(e)
       ELSE Step(e)

TraceSpec == TraceInit /\ [][TraceNext]_tvars

NoBad == bad = {} \/ PrintT("BAD " \o ToJson([line |-> l - 1, sc |-> Rec[l - 1].sc, i |-> Rec[l - 1].i,
                                                    ev |-> Rec[l - 1].ev, labels |-> bad]))
TraceAccepted ==
    IF TLCGet("stats").diameter - 1 = Len(Rec) THEN PrintT(<<"CONSUMED", Len(Rec)>>)
    ELSE Print(<<"STUCK at line", TLCGet("stats").diameter>>, FALSE)
=============================================================================
