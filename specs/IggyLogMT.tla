------------------------------ MODULE IggyLogMT ------------------------------
(***************************************************************************)
(* Operational model of concurrent producers and pollers on one partition  *)
(* (C12): a send is SendStart; Commit (the whole batch enters the log      *)
(* atomically - the partition write lock); SendEnd (acknowledgement).  A   *)
(* poll is PollStart; PollRead (the answer is the slice of the log at one  *)
(* instant); PollEnd.  A ghost history records every call with logical     *)
(* times; TLC checks that every complete history satisfies the predicates  *)
(* of LogMTHistory - the same predicates recorded histories of the real    *)
(* server are validated against.                                           *)
(***************************************************************************)
EXTENDS LogMTHistory

CONSTANTS Producers, Pollers, NBatches, MaxPolls

VARIABLES log,     \* sequence of message numbers
          ppc,     \* [producer -> [pc, b, t0]]
          qpc,     \* [poller -> [pc, o, n, t0, r, done]]
          clock, sends, polls

vars == <<log, ppc, qpc, clock, sends, polls>>

Batch(p, b) == IF (p + b) % 2 = 0 THEN <<p * 100 + b * 10>> ELSE <<p * 100 + b * 10, p * 100 + b * 10 + 1>>
FOf(lg) == [i \in 1..Len(lg) |-> <<i - 1, lg[i]>>]

Init == /\ log = <<>> /\ clock = 1 /\ sends = <<>> /\ polls = <<>>
        /\ ppc = [p \in Producers |-> [pc |-> "idle", b |-> 0, t0 |-> 0]]
        /\ qpc = [q \in Pollers |-> [pc |-> "idle", o |-> 0, n |-> 0, t0 |-> 0, r |-> <<>>, done |-> 0]]

SendStart(p) == /\ ppc[p].pc = "idle" /\ ppc[p].b < NBatches
                /\ ppc' = [ppc EXCEPT ![p] = [pc |-> "started", b |-> ppc[p].b, t0 |-> clock]]
                /\ clock' = clock + 1 /\ UNCHANGED <<log, qpc, sends, polls>>
Commit(p) == /\ ppc[p].pc = "started"
             /\ log' = log \o Batch(p, ppc[p].b)
             /\ ppc' = [ppc EXCEPT ![p].pc = "committed"]
             /\ UNCHANGED <<qpc, clock, sends, polls>>
SendEnd(p) == /\ ppc[p].pc = "committed"
              /\ sends' = Append(sends, [who |-> p, b |-> ppc[p].b, t0 |-> ppc[p].t0, t1 |-> clock, ms |-> Batch(p, ppc[p].b), res |-> "ok"])
              /\ ppc' = [ppc EXCEPT ![p] = [pc |-> "idle", b |-> ppc[p].b + 1, t0 |-> 0]]
              /\ clock' = clock + 1 /\ UNCHANGED <<log, qpc, polls>>
PollStart(q) == /\ qpc[q].pc = "idle" /\ qpc[q].done < MaxPolls
                /\ \E o \in 0..2 : \E n \in 1..3 :
                     qpc' = [qpc EXCEPT ![q] = [pc |-> "started", o |-> o, n |-> n, t0 |-> clock, r |-> <<>>, done |-> qpc[q].done]]
                /\ clock' = clock + 1 /\ UNCHANGED <<log, ppc, sends, polls>>
PollRead(q) == /\ qpc[q].pc = "started"
               /\ LET o == qpc[q].o  hi == IF o + qpc[q].n <= Len(log) THEN o + qpc[q].n ELSE Len(log) IN
                  qpc' = [qpc EXCEPT ![q].pc = "read", ![q].r = [i \in 1..(hi - o) |-> <<o + i - 1, log[o + i]>>]]
               /\ UNCHANGED <<log, ppc, clock, sends, polls>>
PollEnd(q) == /\ qpc[q].pc = "read"
              /\ polls' = Append(polls, [who |-> q, t0 |-> qpc[q].t0, t1 |-> clock, o |-> qpc[q].o, n |-> qpc[q].n, r |-> qpc[q].r, res |-> "ok"])
              /\ qpc' = [qpc EXCEPT ![q] = [pc |-> "idle", o |-> 0, n |-> 0, t0 |-> 0, r |-> <<>>, done |-> qpc[q].done + 1]]
              /\ clock' = clock + 1 /\ UNCHANGED <<log, ppc, sends>>

Next == (\E p \in Producers : SendStart(p) \/ Commit(p) \/ SendEnd(p)) \/ (\E q \in Pollers : PollStart(q) \/ PollRead(q) \/ PollEnd(q))
Spec == Init /\ [][Next]_vars

Quiescent == (\A p \in Producers : ppc[p].pc = "idle") /\ (\A q \in Pollers : qpc[q].pc = "idle")
(* every history the model can produce satisfies the history-level statement of C12 *)
HistoryOK ==
    Quiescent =>
        LET F == FOf(log) IN
        /\ Dense(F) /\ NoDuplicate(F) /\ NoForeign(F, sends) /\ AckedPresent(F, sends) /\ BatchesWhole(F, sends) /\ ProducerOrder(F, sends)
        /\ \A k \in 1..Len(polls) :
              /\ PollIsRun(F, polls[k]) /\ PollNotTorn(F, sends, polls[k])
              /\ PollNotFromFuture(F, sends, polls[k]) /\ SeesAcked(F, sends, polls[k])
=============================================================================
