----------------------------- MODULE IggyJournal -----------------------------
(***************************************************************************)
(* The state journal (C11): appliers that take an index and append an      *)
(* entry, a loader that accepts a file only if the indexes are 0,1,2,...   *)
(* in file order and every checksum matches, and tampering on a copy of a  *)
(* valid file.  The constant Serialized selects the design: TRUE = index   *)
(* allocation and append are one critical section and a failed append      *)
(* consumes nothing (the repaired code); FALSE = the two steps of the      *)
(* original code (atomic counter, separate append), kept so that TLC       *)
(* reproduces the counterexamples that were then forced on the real code.  *)
(*   file     sequence of [index, ok]  (ok = checksum matches content)     *)
(***************************************************************************)
EXTENDS Integers, Sequences, FiniteSets, TLC

CONSTANTS Procs, MaxFaults, MaxOps, Serialized

VARIABLES file, curIndex, entries, pc, idx, faults, ops, locked
vars == <<file, curIndex, entries, pc, idx, faults, ops, locked>>

Init == /\ file = <<>> /\ curIndex = 0 /\ entries = 0
        /\ pc = [p \in Procs |-> "idle"] /\ idx = [p \in Procs |-> 0]
        /\ faults = 0 /\ ops = 0 /\ locked = FALSE

NextIndex == IF entries = 0 THEN 0 ELSE curIndex + 1

(* original design: entries_count == 0 ? 0 : fetch_add(1) + 1, then entries_count += 1 before a separate append *)
AllocOld(p) ==
    /\ ~Serialized /\ pc[p] = "idle" /\ ops < MaxOps
    /\ idx' = [idx EXCEPT ![p] = NextIndex]
    /\ curIndex' = IF entries = 0 THEN curIndex ELSE curIndex + 1
    /\ entries' = entries + 1
    /\ pc' = [pc EXCEPT ![p] = "alloc"] /\ ops' = ops + 1
    /\ UNCHANGED <<file, faults, locked>>
WriteOld(p) ==
    /\ ~Serialized /\ pc[p] = "alloc"
    /\ file' = Append(file, [index |-> idx[p], ok |-> TRUE])
    /\ pc' = [pc EXCEPT ![p] = "idle"]
    /\ UNCHANGED <<curIndex, entries, idx, faults, ops, locked>>
FailOld(p) ==
    /\ ~Serialized /\ pc[p] = "alloc" /\ faults < MaxFaults
    /\ faults' = faults + 1 /\ pc' = [pc EXCEPT ![p] = "idle"]
    /\ UNCHANGED <<file, curIndex, entries, idx, ops, locked>>

(* repaired design: lock; index = next; append; on success store index and count; unlock *)
Begin(p) ==
    /\ Serialized /\ pc[p] = "idle" /\ ~locked /\ ops < MaxOps
    /\ locked' = TRUE /\ idx' = [idx EXCEPT ![p] = NextIndex]
    /\ pc' = [pc EXCEPT ![p] = "alloc"] /\ ops' = ops + 1
    /\ UNCHANGED <<file, curIndex, entries, faults>>
Write(p) ==
    /\ Serialized /\ pc[p] = "alloc"
    /\ file' = Append(file, [index |-> idx[p], ok |-> TRUE])
    /\ curIndex' = idx[p] /\ entries' = entries + 1
    /\ locked' = FALSE /\ pc' = [pc EXCEPT ![p] = "idle"]
    /\ UNCHANGED <<idx, faults, ops>>
Fail(p) ==
    /\ Serialized /\ pc[p] = "alloc" /\ faults < MaxFaults
    /\ faults' = faults + 1 /\ locked' = FALSE /\ pc' = [pc EXCEPT ![p] = "idle"]
    /\ UNCHANGED <<file, curIndex, entries, idx, ops>>

Next == \E p \in Procs : AllocOld(p) \/ WriteOld(p) \/ FailOld(p) \/ Begin(p) \/ Write(p) \/ Fail(p)
Spec == Init /\ [][Next]_vars

(* the loader: indexes 0,1,2,... in file order, every checksum matching; otherwise an error *)
Loadable(f) == \A i \in 1..Len(f) : f[i].index = i - 1 /\ f[i].ok
AlwaysLoadable == Loadable(file)

(***************************************************************************)
(* Tampering with a copy f of a valid file (the harness performs concrete  *)
(* instances of these on the bytes): the loader must answer Error, or a    *)
(* prefix of f - and a prefix only for the loss of a whole suffix.         *)
(***************************************************************************)
Valid(n) == [i \in 1..n |-> [index |-> i - 1, ok |-> TRUE]]
Flip(f, i) == [f EXCEPT ![i].ok = FALSE]
Drop(f, i) == [j \in 1..(Len(f) - 1) |-> IF j < i THEN f[j] ELSE f[j + 1]]
Dup(f, i) == [j \in 1..(Len(f) + 1) |-> IF j <= i THEN f[j] ELSE f[j - 1]]
Swap(f, i, k) == [f EXCEPT ![i] = f[k], ![k] = f[i]]
CutSuffix(f, k) == SubSeq(f, 1, k)
TamperEvident(n) ==
    LET f == Valid(n) IN
    /\ \A i \in 1..n : ~Loadable(Flip(f, i))
    /\ \A i \in 1..n : Loadable(Drop(f, i)) => i = n                    \* only the loss of the last entry goes unnoticed
    /\ \A i \in 1..n : ~Loadable(Dup(f, i))
    /\ \A i \in 1..n : \A k \in 1..n : i # k => ~Loadable(Swap(f, i, k))
    /\ \A k \in 0..n : Loadable(CutSuffix(f, k))                        \* ... and yields a prefix
=============================================================================
