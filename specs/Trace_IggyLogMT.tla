--------------------------- MODULE Trace_IggyLogMT ---------------------------
(* Validation of recorded concurrent histories (harness/src/mt_lens.rs) against the history-level statement of C12. *)
EXTENDS LogMTHistory, Json, IOUtils
Rec == ndJsonDeserialize(IOEnv.TRACE)
VARIABLES l, bad
tvars == <<l, bad>>

OkPolls(e) == { k \in 1..Len(e.polls) : e.polls[k].res = "ok" }
HistoryLabels(e) ==
    LET F == e.final  S == e.sends  P == e.polls IN
    (IF ~Dense(F) THEN {<<"C12.final_not_dense">>} ELSE {})
    \cup (IF ~NoDuplicate(F) THEN {<<"C12.duplicate">>} ELSE {})
    \cup (IF ~NoForeign(F, S) THEN {<<"C12.foreign_message">>} ELSE {})
    \cup (IF ~AckedPresent(F, S) THEN {<<"C12.acked_lost", CHOOSE s \in 1..Len(S) : S[s].res = "ok" /\ \E j \in 1..Len(S[s].ms) : Pos(F, S[s].ms[j]) = 0>>} ELSE {})
    \cup (IF ~BatchesWhole(F, S) THEN {<<"C12.batch_torn">>} ELSE {})
    \cup (IF ~ProducerOrder(F, S) THEN {<<"C12.producer_order">>} ELSE {})
    \cup (LET b == { k \in OkPolls(e) : ~PollIsRun(F, P[k]) } IN
          IF b # {} THEN {<<"C12.poll_not_a_run", P[CHOOSE k \in b : TRUE]>>} ELSE {})
    \cup (LET b == { k \in OkPolls(e) : PollIsRun(F, P[k]) /\ ~PollNotTorn(F, S, P[k]) } IN
          IF b # {} THEN {<<"C12.torn_read", P[CHOOSE k \in b : TRUE]>>} ELSE {})
    \cup (LET b == { k \in OkPolls(e) : ~PollNotFromFuture(F, S, P[k]) } IN
          IF b # {} THEN {<<"C12.read_from_future", P[CHOOSE k \in b : TRUE]>>} ELSE {})
    \* "once a send has been acknowledged under wait-confirmation every later poll of that range includes it"
    \cup (LET b == { k \in OkPolls(e) : ~e.nowait /\ PollIsRun(F, P[k]) /\ ~SeesAcked(F, S, P[k]) } IN
          IF b # {} THEN {<<"C12.acked_not_visible", P[CHOOSE k \in b : TRUE], Frontier(F, S, P[CHOOSE k \in b : TRUE])>>} ELSE {})
    \cup (LET b == { k \in 1..Len(P) : P[k].res # "ok" } IN IF b # {} THEN {<<"X.poll_failed", P[CHOOSE k \in b : TRUE].res>>} ELSE {})
    \cup (LET b == { s \in 1..Len(S) : S[s].res # "ok" } IN IF b # {} THEN {<<"X.send_failed", S[CHOOSE s \in b : TRUE].res>>} ELSE {})

TraceInit == l = 1 /\ bad = {}
TraceNext ==
    /\ l <= Len(Rec) /\ l' = l + 1
    /\ LET e == Rec[l] IN bad' = IF e.ev = "history" THEN HistoryLabels(e) ELSE {}
TraceSpec == TraceInit /\ [][TraceNext]_tvars
NoBad == bad = {} \/ PrintT("BAD " \o ToJson([line |-> l - 1, sc |-> Rec[l - 1].sc, i |-> Rec[l - 1].i,
                                                    ev |-> Rec[l - 1].ev, labels |-> bad]))
TraceAccepted ==
    IF TLCGet("stats").diameter - 1 = Len(Rec) THEN PrintT(<<"CONSUMED", Len(Rec)>>)
    ELSE Print(<<"STUCK at line", TLCGet("stats").diameter>>, FALSE)
=============================================================================
