---------------------------- MODULE IggyCatalogue ----------------------------
(***************************************************************************)
(* The catalogue as a sequential map (C06) that a restart reproduces (C05).*)
(* State is a handful of finite relations, so that what the get/list calls *)
(* return can be compared with it as plain sets:                           *)
(*   S    <<stream id, name>>                                              *)
(*   T    <<stream id, topic id, name, partitions>>                        *)
(*   G    <<stream id, topic id, group id, name>>                          *)
(*   Cnt  <<stream id, topic id, partition id, messages>>                  *)
(*   U    <<user id, name, active>>                                        *)
(*   Mem  <<client, stream id, topic id, group id>>  group memberships     *)
(* Commands address entities by numeric id or by name; a create may let    *)
(* the server choose the id (any id that is free in its scope - the        *)
(* allocation policy is not part of any property).  Every command is a     *)
(* total function of the state: either it is refused and changes nothing,  *)
(* or it has exactly the effect below.  A restart is the identity.         *)
(***************************************************************************)
EXTENDS Integers, Sequences, FiniteSets, TLC

VARIABLES S, T, G, Cnt, U, Mem
vars == <<S, T, G, Cnt, U, Mem>>

NoId == 0   \* "not found" / "let the server choose"

(* resolution of a reference r = [by |-> "id" | "name", v |-> ...] *)
StreamOf(r) == LET m == { s \in S : IF r.by = "id" THEN s[1] = r.v ELSE s[2] = r.v }
               IN IF m = {} THEN NoId ELSE (CHOOSE s \in m : TRUE)[1]
TopicOf(sid, r) == LET m == { t \in T : t[1] = sid /\ (IF r.by = "id" THEN t[2] = r.v ELSE t[3] = r.v) }
                   IN IF m = {} THEN NoId ELSE (CHOOSE t \in m : TRUE)[2]
GroupOf(sid, tid, r) == LET m == { g \in G : g[1] = sid /\ g[2] = tid /\ (IF r.by = "id" THEN g[3] = r.v ELSE g[4] = r.v) }
                        IN IF m = {} THEN NoId ELSE (CHOOSE g \in m : TRUE)[3]
UserOf(r) == LET m == { u \in U : IF r.by = "id" THEN u[1] = r.v ELSE u[2] = r.v }
             IN IF m = {} THEN NoId ELSE (CHOOSE u \in m : TRUE)[1]
TopicRec(sid, tid) == CHOOSE t \in T : t[1] = sid /\ t[2] = tid
Parts(sid, tid) == TopicRec(sid, tid)[4]

StreamIds == { s[1] : s \in S }
StreamNames == { s[2] : s \in S }
TopicIds(sid) == { t[2] : t \in { x \in T : x[1] = sid } }
TopicNames(sid) == { t[3] : t \in { x \in T : x[1] = sid } }
GroupIds(sid, tid) == { g[3] : g \in { x \in G : x[1] = sid /\ x[2] = tid } }
GroupNames(sid, tid) == { g[4] : g \in { x \in G : x[1] = sid /\ x[2] = tid } }
UserIds == { u[1] : u \in U }
UserNames == { u[2] : u \in U }

(***************************** streams *****************************)
CanCreateStream(id, name) == name \notin StreamNames /\ (id = NoId \/ id \notin StreamIds)
(* rid = the id the stream received (the requested one, or the server's choice, which must be free) *)
CreateStream(rid, name) ==
    /\ S' = S \cup {<<rid, name>>}
    /\ UNCHANGED <<T, G, Cnt, U, Mem>>
CanRenameStream(sid, name) == sid # NoId /\ \A s \in S : s[2] = name => s[1] = sid
RenameStream(sid, name) ==
    /\ S' = { IF s[1] = sid THEN <<sid, name>> ELSE s : s \in S }
    /\ UNCHANGED <<T, G, Cnt, U, Mem>>
DeleteStream(sid) ==
    /\ S' = { s \in S : s[1] # sid }
    /\ T' = { t \in T : t[1] # sid }
    /\ G' = { g \in G : g[1] # sid }
    /\ Cnt' = { c \in Cnt : c[1] # sid }
    /\ Mem' = { m \in Mem : m[2] # sid }
    /\ UNCHANGED U
PurgeStream(sid) ==
    /\ Cnt' = { IF c[1] = sid THEN <<c[1], c[2], c[3], 0>> ELSE c : c \in Cnt }
    /\ UNCHANGED <<S, T, G, U, Mem>>

(***************************** topics *****************************)
CanCreateTopic(sid, id, name) == sid # NoId /\ name \notin TopicNames(sid) /\ (id = NoId \/ id \notin TopicIds(sid))
CreateTopic(sid, rid, name, parts) ==
    /\ T' = T \cup {<<sid, rid, name, parts>>}
    /\ Cnt' = Cnt \cup { <<sid, rid, p, 0>> : p \in 1..parts }
    /\ UNCHANGED <<S, G, U, Mem>>
CanRenameTopic(sid, tid, name) == sid # NoId /\ tid # NoId /\ \A t \in T : (t[1] = sid /\ t[3] = name) => t[2] = tid
RenameTopic(sid, tid, name) ==
    /\ T' = { IF t[1] = sid /\ t[2] = tid THEN <<sid, tid, name, t[4]>> ELSE t : t \in T }
    /\ UNCHANGED <<S, G, Cnt, U, Mem>>
DeleteTopic(sid, tid) ==
    /\ T' = { t \in T : ~(t[1] = sid /\ t[2] = tid) }
    /\ G' = { g \in G : ~(g[1] = sid /\ g[2] = tid) }
    /\ Cnt' = { c \in Cnt : ~(c[1] = sid /\ c[2] = tid) }
    /\ Mem' = { m \in Mem : ~(m[2] = sid /\ m[3] = tid) }
    /\ UNCHANGED <<S, U>>
PurgeTopic(sid, tid) ==
    /\ Cnt' = { IF c[1] = sid /\ c[2] = tid THEN <<c[1], c[2], c[3], 0>> ELSE c : c \in Cnt }
    /\ UNCHANGED <<S, T, G, U, Mem>>
(* partitions are added / removed at the high end; a removal is clamped to what exists *)
AddPartitions(sid, tid, k) ==
    LET n == Parts(sid, tid) IN
    /\ T' = { IF t[1] = sid /\ t[2] = tid THEN <<sid, tid, t[3], n + k>> ELSE t : t \in T }
    /\ Cnt' = Cnt \cup { <<sid, tid, p, 0>> : p \in (n + 1)..(n + k) }
    /\ UNCHANGED <<S, G, U, Mem>>
RemovePartitions(sid, tid, k) ==
    LET n == Parts(sid, tid)
        m == IF k > n THEN 0 ELSE n - k IN
    /\ T' = { IF t[1] = sid /\ t[2] = tid THEN <<sid, tid, t[3], m>> ELSE t : t \in T }
    /\ Cnt' = { c \in Cnt : ~(c[1] = sid /\ c[2] = tid /\ c[3] > m) }
    /\ UNCHANGED <<S, G, U, Mem>>
SendTo(sid, tid, p, k) ==
    /\ Cnt' = { IF c[1] = sid /\ c[2] = tid /\ c[3] = p THEN <<sid, tid, p, c[4] + k>> ELSE c : c \in Cnt }
    /\ UNCHANGED <<S, T, G, U, Mem>>

(***************************** consumer groups *****************************)
CanCreateGroup(sid, tid, id, name) ==
    sid # NoId /\ tid # NoId /\ name \notin GroupNames(sid, tid) /\ (id = NoId \/ id \notin GroupIds(sid, tid))
CreateGroup(sid, tid, rid, name) ==
    /\ G' = G \cup {<<sid, tid, rid, name>>}
    /\ UNCHANGED <<S, T, Cnt, U, Mem>>
DeleteGroup(sid, tid, gid) ==
    /\ G' = { g \in G : ~(g[1] = sid /\ g[2] = tid /\ g[3] = gid) }
    /\ Mem' = { m \in Mem : ~(m[2] = sid /\ m[3] = tid /\ m[4] = gid) }
    /\ UNCHANGED <<S, T, Cnt, U>>
Join(c, sid, tid, gid) == Mem' = Mem \cup {<<c, sid, tid, gid>>} /\ UNCHANGED <<S, T, G, Cnt, U>>
Leave(c, sid, tid, gid) == Mem' = Mem \ {<<c, sid, tid, gid>>} /\ UNCHANGED <<S, T, G, Cnt, U>>
Disconnect(c) == Mem' = { m \in Mem : m[1] # c } /\ UNCHANGED <<S, T, G, Cnt, U>>
(* a client that misses its heartbeat is removed by the heartbeat verification exactly like one whose connection dropped; *)
(* every client that did ping stays                                                                                     *)
Expire(c) == Disconnect(c)

(***************************** users *****************************)
CanCreateUser(name) == name \notin UserNames
CreateUser(rid, name, active) == U' = U \cup {<<rid, name, active>>} /\ UNCHANGED <<S, T, G, Cnt, Mem>>
CanUpdateUser(uid, name) == uid # NoId /\ \A u \in U : u[2] = name => u[1] = uid
UpdateUser(uid, name, active) ==
    /\ U' = { IF u[1] = uid THEN <<uid, name, active>> ELSE u : u \in U }
    /\ UNCHANGED <<S, T, G, Cnt, Mem>>
DeleteUser(uid) == U' = { u \in U : u[1] # uid } /\ UNCHANGED <<S, T, G, Cnt, Mem>>

Refused == UNCHANGED vars
Restart == UNCHANGED <<S, T, G, Cnt, U>> /\ Mem' = {}     \* connections do not survive, everything else does (C05)

(***************************************************************************)
(* Well-formedness (C06): ids and names unique within their scope, nested  *)
(* entities only inside live parents.                                      *)
(***************************************************************************)
WellFormed ==
    /\ \A a, b \in S : (a[1] = b[1] \/ a[2] = b[2]) => a = b
    /\ \A a, b \in T : (a[1] = b[1] /\ (a[2] = b[2] \/ a[3] = b[3])) => a = b
    /\ \A a, b \in G : (a[1] = b[1] /\ a[2] = b[2] /\ (a[3] = b[3] \/ a[4] = b[4])) => a = b
    /\ \A a, b \in U : (a[1] = b[1] \/ a[2] = b[2]) => a = b
    /\ \A t \in T : t[1] \in StreamIds
    /\ \A g \in G : g[1] \in StreamIds /\ g[2] \in TopicIds(g[1])
    /\ \A c \in Cnt : c[1] \in StreamIds /\ c[2] \in TopicIds(c[1]) /\ c[3] \in 1..Parts(c[1], c[2])
    /\ \A t \in T : \A p \in 1..t[4] : \E c \in Cnt : c[1] = t[1] /\ c[2] = t[2] /\ c[3] = p
    /\ \A m \in Mem : <<m[2], m[3], m[4]>> \in { <<g[1], g[2], g[3]>> : g \in G }
=============================================================================
