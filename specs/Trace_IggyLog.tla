---------------------------- MODULE Trace_IggyLog ----------------------------
(***************************************************************************)
(* Trace validation for the data-path lens.  The trace (ndjson, one event  *)
(* per executed step, written by harness/src/log_lens.rs) drives IggyLog's *)
(* actions; the specification state advances from the logged INPUTS (and   *)
(* the few values a property lets the implementation choose), every logged *)
(* observation is compared with the specification's operators on the       *)
(* post-state, and each disagreement yields a label <<"Cnn.what", ...>>    *)
(* in `bad`.  The trace is a behaviour of the specification iff no state   *)
(* has a label.  Labels are printed (invariant NoBad) and the run goes on, *)
(* so one rejection never leaves the rest of the trace unexamined.         *)
(***************************************************************************)
EXTENDS IggyLog, Json, IOUtils

Rec == ndJsonDeserialize(IOEnv.TRACE)

VARIABLES l,      \* next line of the trace
          kmap,   \* identity (as used on the wire) -> key of the stored-offset map
          gkeys,  \* keys that denote consumer groups (existing or not)
          dead,   \* the scenario ended in a fatal event; lines up to the next reset are skipped
          bad     \* labels of the step that led to this state

tvars == <<vars, l, kmap, gkeys, dead, bad>>

NormSegs(js) == [i \in 1..Len(js) |-> [start |-> js[i].start, closed |-> js[i].closed]]
SegsOf(e) == [p \in 1..Len(e.post) |-> NormSegs(e.post[p].segs)]
CacheOf(e) == [p \in 1..Len(e.post) |-> e.post[p].cache_lo]

FirstBad(S) == MinOfSet(S)

(* labels for the sweep of partition p, evaluated on the given (post-)state *)
ObsLabels(p, lg, l0, cl, st, grp, gk, km, ob) ==
    LET los == LoSet(l0, cl)
        L == Len(lg)
        badPolls == { i \in 1..Len(ob.polls) :
                        ob.polls[i][3] \notin Slices(lg, los, ob.polls[i][1], ob.polls[i][2]) }
        badCur   == { i \in 1..Len(ob.polls) : ob.polls[i][4] # CurOf(lg) }
        badFirst == { i \in 1..Len(ob.first) : ob.first[i][2] \notin { FirstN(lg, x, ob.first[i][1]) : x \in los } }
        badLast  == { i \in 1..Len(ob.last) : ob.last[i][2] \notin { LastN(lg, x, ob.last[i][1]) : x \in los } }
        badTs    == { i \in 1..Len(ob.by_ts) :
                        ob.by_ts[i][3] \notin { ByRank(lg, x, ob.by_ts[i][1], ob.by_ts[i][2]) : x \in los } }
        badNext  == { i \in 1..Len(ob.next) :
                        ob.next[i][3] \notin NextSet(lg, los, st[km[ob.next[i][1]]], ob.next[i][2]) }
        badStored == { w \in DOMAIN km :
                        IF km[w] \in grp \/ km[w] \notin gk THEN ob.stored[w] # st[km[w]] ELSE ob.stored[w] \notin {None, NoGroup} }
    IN  (IF ob.cur # CurOf(lg) \/ ob.tcur # CurOf(lg) \/ badCur # {} THEN {<<"C01.cur", p, ob.cur, CurOf(lg)>>} ELSE {})
        \cup (IF ob.read \notin { RunOf(lg, x, L) : x \in los } THEN {<<"C02.read", p>>} ELSE {})
        \cup (IF badPolls # {} THEN {<<"C02.poll", p, ob.polls[FirstBad(badPolls)][1], ob.polls[FirstBad(badPolls)][2], Cardinality(badPolls)>>} ELSE {})
        \cup (IF badFirst # {} THEN {<<"C02.first", p, ob.first[FirstBad(badFirst)][1]>>} ELSE {})
        \cup (IF badLast # {} THEN {<<"C02.last", p, ob.last[FirstBad(badLast)][1]>>} ELSE {})
        \cup (IF badTs # {} \/ ~ob.ts_mono THEN {<<"C02.ts", p>>} ELSE {})
        \cup (IF badNext # {} THEN {<<"C07.next", p, ob.next[FirstBad(badNext)][1]>>} ELSE {})
        \cup (IF badStored # {} THEN {<<"C07.stored", p, CHOOSE w \in badStored : TRUE>>} ELSE {})
        \cup (IF ob.count # L - l0 THEN {<<"C16.count", p, ob.count, L - l0>>} ELSE {})
        \cup (IF Len(ob.errs) # 0 THEN {<<"X.errs", p, ob.errs[1]>>} ELSE {})

SweepLabels(e) ==
    UNION { ObsLabels(p, log'[p], lo'[p], cacheLo'[p], stored'[p], groups', gkeys, kmap, e.obs[p]) : p \in DOMAIN log' }
    \cup (IF "plain_hits" \in DOMAIN e.obs[1] /\ e.obs[1].plain_hits # 0 THEN {<<"C19.plaintext_on_disk", e.obs[1].plain_hits>>} ELSE {})
    \cup (LET tot == [p \in DOMAIN log' |-> Len(log'[p]) - lo'[p]]
              sum[i \in 0..Len(tot)] == IF i = 0 THEN 0 ELSE sum[i - 1] + tot[i]
          IN IF \E p \in DOMAIN log' : e.obs[p].tcount # sum[Len(tot)] THEN {<<"C16.tcount">>} ELSE {})

(* labels for what happened to the segment lists (C14): judged on the pre-state log, clock and expiry *)
LayoutLabels(e, purged) ==
    IF purged THEN {}
    ELSE UNION { (IF ~RemovedOK(log[p], segs[p], SegsOf(e)[p], expiry, now) THEN {<<"C14.removed", p>>} ELSE {})
                 \cup (IF ~RemovedIsPrefix(log[p], segs[p], SegsOf(e)[p]) THEN {<<"C14.prefix", p>>} ELSE {})
                 : p \in DOMAIN log }

Ok(e) == e.res = "ok"
Refused(e) == IF Ok(e) THEN {} ELSE {<<"X.refused", e.ev, e.res>>}

Reset(e) ==
    /\ log' = [p \in 1..e.parts |-> <<>>]
    /\ lo' = [p \in 1..e.parts |-> 0]
    /\ segs' = [p \in 1..e.parts |-> <<[start |-> 0, closed |-> FALSE]>>]
    /\ cacheLo' = [p \in 1..e.parts |-> None]
    /\ stored' = [p \in 1..e.parts |-> [k \in { e.keys[w] : w \in DOMAIN e.keys } |-> None]]
    /\ groups' = { e.keys[w] : w \in { x \in DOMAIN e.keys : e.isgroup[x] } }
    /\ gkeys' = { e.keys[w] : w \in { x \in DOMAIN e.keys : e.isgroup[x] } }
    /\ now' = 0 /\ expiry' = e.expiry /\ dedup' = e.dedup
    /\ kmap' = e.keys /\ dead' = FALSE /\ bad' = {}

Fatal(e) ==
    /\ UNCHANGED <<vars, kmap, gkeys>> /\ dead' = TRUE
    /\ bad' = {<<"X.fatal", e.ev, e.fatal>>}

Skip == UNCHANGED <<vars, kmap, gkeys, dead>> /\ bad' = {}

(* C19: a restart with a different encryption key ends the scenario: the server may refuse to start or answer errors, *)
(* it must never hand out the old data as if it were content                                                         *)
WrongKey(e) ==
    /\ UNCHANGED <<vars, kmap, gkeys>> /\ dead' = TRUE
    /\ bad' = IF \E i \in 1..Len(e.outcome) : e.outcome[i] \in {"messages", "plaintext"}
              THEN {<<"C19.wrong_key_served", e.outcome>>} ELSE {}

Input(e) ==
    CASE e.ev = "append" ->
            IF Ok(e) THEN Send(e.p, e.batch) ELSE Quiet
      [] e.ev \in {"flush", "bg_save", "restart", "retention"} -> Quiet
      [] e.ev = "tick" -> Tick(e.by)
      [] e.ev = "set_expiry" -> IF Ok(e) THEN SetExpiry(e.e) ELSE Quiet
      [] e.ev = "purge" -> IF Ok(e) THEN Purge ELSE Quiet
      [] e.ev = "store" ->
            IF Ok(e) THEN Store(e.p, kmap[e.who], e.o) ELSE Quiet
      [] e.ev = "del_offset" ->
            IF Ok(e) THEN DeleteOffset(e.p, kmap[e.who]) ELSE Quiet
      [] e.ev = "poll_next" ->
            IF Ok(e) THEN PollNext(e.p, kmap[e.who], e.r, e.auto) ELSE Quiet
      [] e.ev = "poll_auto" ->
            IF Ok(e) THEN PollNext(e.p, kmap[e.who], e.r, TRUE) ELSE Quiet
      [] e.ev = "del_group" -> IF Ok(e) THEN DeleteGroup(kmap[e.who]) ELSE Quiet
      [] e.ev = "make_group" -> IF Ok(e) THEN MakeGroup(kmap[e.who]) ELSE Quiet

(* C19: between the shutdown and this start the server was started with ANOTHER key: the undecryptable journal must have made *)
(* that start fail, and in no case may old data have been handed out; the sweep of this event (right key again) is judged as    *)
(* after any restart: catalogue and data exactly as before                                                                     *)
WrongKeyLabels(e) ==
    IF "wrong_key_outcome" \notin DOMAIN e THEN {}
    ELSE (IF e.wrong_key_outcome # <<"start_failed">> THEN {<<"C19.wrong_key_not_reported", e.wrong_key_outcome>>} ELSE {})
         \cup (IF \E i \in 1..Len(e.wrong_key_outcome) : e.wrong_key_outcome[i] \in {"messages", "plaintext"}
               THEN {<<"C19.wrong_key_served", e.wrong_key_outcome>>} ELSE {})

(* labels about the input action's own result, judged on the pre-state *)
InputLabels(e) ==
    CASE e.ev = "store" ->
            (* refused iff beyond the current offset; storing 0 on an empty partition may go either way *)
            IF Len(log[e.p]) = 0 /\ e.o = 0 THEN {}
            ELSE IF kmap[e.who] \in DOMAIN stored[e.p] /\ (kmap[e.who] \in groups \/ kmap[e.who] \notin gkeys)
                 THEN (IF Ok(e) # StoreAllowed(e.p, e.o) THEN {<<"C07.store_bound", e.p, e.o, e.res>>} ELSE {})
                 ELSE (IF Ok(e) THEN {<<"C07.store_nogroup", e.who>>} ELSE {})
      [] e.ev = "del_offset" ->
            IF stored[e.p][kmap[e.who]] # None /\ ~Ok(e) THEN {<<"C07.delete_refused", e.p, e.who, e.res>>} ELSE {}
      [] e.ev = "poll_next" ->
            IF ~Ok(e) THEN (IF kmap[e.who] \in gkeys /\ kmap[e.who] \notin groups THEN {} ELSE Refused(e))
            ELSE IF e.r \notin NextSet(log[e.p], LoSet(lo[e.p], cacheLo[e.p]), stored[e.p][kmap[e.who]], e.n)
                 THEN {<<"C07.next_result", e.p, e.who>>} ELSE {}
      [] e.ev = "poll_auto" ->
            IF ~Ok(e) THEN (IF kmap[e.who] \in gkeys /\ kmap[e.who] \notin groups THEN {} ELSE Refused(e))
            ELSE IF e.r \notin Slices(log[e.p], LoSet(lo[e.p], cacheLo[e.p]), e.o, e.n)
                 THEN {<<"C02.poll", e.p, e.o, e.n, Len(e.r)>>} ELSE {}
      [] e.ev = "append" ->
            (* C18: a send carrying client-chosen ids must leave exactly the specification's log (first occurrences kept *)
            (* with de-duplication on, everything kept with it off), whatever else the sweep finds                      *)
            Refused(e) \cup
            (IF (\E i \in 1..Len(e.batch) : e.batch[i][2] # 0)
                /\ (e.obs[e.p].cur # CurOf(log'[e.p])
                    \/ e.obs[e.p].read \notin { RunOf(log'[e.p], x, Len(log'[e.p])) : x \in LoSet(lo'[e.p], cacheLo'[e.p]) })
             THEN {<<"C18.append", e.p, e.obs[e.p].cur, CurOf(log'[e.p])>>} ELSE {})
      [] e.ev \in {"del_group", "make_group"} -> {}
      [] e.ev = "restart" -> (IF Ok(e) THEN {} ELSE {<<"C03.shutdown", e.res>>}) \cup WrongKeyLabels(e)
      [] OTHER -> Refused(e)

Step(e) ==
    /\ Input(e)
    /\ IF e.ev = "purge" /\ Ok(e) THEN LayoutPurged(SegsOf(e), CacheOf(e)) ELSE LayoutAll(SegsOf(e), CacheOf(e))
    /\ UNCHANGED <<kmap, gkeys, dead>>
    /\ bad' = InputLabels(e) \cup LayoutLabels(e, e.ev = "purge" /\ Ok(e)) \cup SweepLabels(e)

TraceInit ==
    /\ l = 1 /\ kmap = <<>> /\ gkeys = {} /\ dead = TRUE /\ bad = {}
    /\ log = <<>> /\ lo = <<>> /\ segs = <<>> /\ cacheLo = <<>> /\ stored = <<>> /\ groups = {}
    /\ now = 0 /\ expiry = 0 /\ dedup = FALSE

TraceNext ==
    /\ l <= Len(Rec)
    /\ l' = l + 1
    /\ LET e == Rec[l] IN
       IF e.ev = "reset" THEN Reset(e)
       ELSE IF dead THEN Skip
       ELSE IF e.ev = "restart_wrong_key" THEN WrongKey(e)
       ELSE IF "fatal" \in DOMAIN e THEN Fatal(e)
       ELSE Step(e)

TraceSpec == TraceInit /\ [][TraceNext]_tvars

(* printing instead of stopping: every state with labels is reported, the run continues *)
NoBad == bad = {} \/ PrintT("BAD " \o ToJson([line |-> l - 1, sc |-> Rec[l - 1].sc, i |-> Rec[l - 1].i,
                                                    ev |-> Rec[l - 1].ev, labels |-> bad]))

(* the whole trace must have been consumed (one state per line plus the initial state) *)
TraceAccepted ==
    IF TLCGet("stats").diameter - 1 = Len(Rec) THEN PrintT(<<"CONSUMED", Len(Rec)>>)
    ELSE Print(<<"STUCK at line", TLCGet("stats").diameter>>, FALSE)
=============================================================================
