----------------------------- MODULE MC_IggyLog -----------------------------
(***************************************************************************)
(* Bounded instances of IggyLog for exhaustive model checking and for      *)
(* generating input scripts (history variable `hist`, hidden by VIEW).     *)
(* The layout step follows a REFERENCE layout policy shaped like the code: *)
(* messages go to the open segment, the unsaved buffer is written when it  *)
(* reaches Threshold messages or the segment reaches SegCap messages, a    *)
(* full segment is closed and the next send opens a new one at end+1.      *)
(* One source of truth, several configs (MC_IggyLog_*.cfg) that zero out   *)
(* the dimensions a concern does not need.                                 *)
(***************************************************************************)
EXTENDS IggyLog, Json

CONSTANTS NParts,       \* number of partitions
          KeySet,       \* consumer identity keys, e.g. {"c1","g1"}
          GroupKeys,    \* the subset that are consumer groups
          DedupOn,      \* BOOLEAN: server-side de-duplication
          IdSet,        \* message id classes used by sends (0 = server-assigned)
          MaxLen,       \* bound on the log length of a partition
          MaxBatch,     \* bound on the batch size
          MaxNow,       \* bound on the clock
          ExpirySet,    \* expiry values SetExpiry may choose (0 = never)
          Threshold,    \* reference layout: messages_required_to_save
          SegCap,       \* reference layout: messages per segment
          MaxOps,       \* bound on the number of input actions
          Ops           \* set of enabled input action names

VARIABLES fill,   \* ghost: [partition -> [n, unsaved]] messages / unsaved messages of the open segment
          fresh,  \* ghost: TRUE right after a restart (makes a restart a visible step for script generation)
          hist    \* history of input actions (the script)

mvars == <<vars, fill, fresh, hist>>

P == 1..NParts

Batches == UNION { [1..k -> IdSet] : k \in 1..MaxBatch }

MkBatch(p, ids) == [i \in 1..Len(ids) |-> <<Len(log[p]) + i, ids[i]>>]

LastSeg(sg) == sg[Len(sg)]

(* reference layout after appending k accepted messages to partition p *)
RefAppend(p, k) ==
    LET sg0 == IF LastSeg(segs[p]).closed
               THEN segs[p] \o <<[start |-> Len(log[p]), closed |-> FALSE]>> ELSE segs[p]
        n0  == IF LastSeg(segs[p]).closed THEN 0 ELSE fill[p].n
        u0  == IF LastSeg(segs[p]).closed THEN 0 ELSE fill[p].unsaved
        n1  == n0 + k
        full == n1 >= SegCap
        u1  == IF u0 + k >= Threshold \/ full THEN 0 ELSE u0 + k
        sg1 == IF full THEN [sg0 EXCEPT ![Len(sg0)].closed = TRUE] ELSE sg0
    IN <<sg1, [n |-> n1, unsaved |-> u1]>>

Record(op) == hist' = Append(hist, op)

MCInit ==
    /\ log = [p \in P |-> <<>>]
    /\ lo = [p \in P |-> 0]
    /\ segs = [p \in P |-> <<[start |-> 0, closed |-> FALSE]>>]
    /\ cacheLo = [p \in P |-> None]
    /\ stored = [p \in P |-> [k \in KeySet |-> None]]
    /\ groups = GroupKeys
    /\ now = 0
    /\ expiry \in ExpirySet
    /\ dedup = DedupOn
    /\ fill = [p \in P |-> [n |-> 0, unsaved |-> 0]]
    /\ fresh = FALSE
    /\ hist = <<>>

MCSend ==
    /\ "append" \in Ops
    /\ \E p \in P : \E ids \in Batches :
        LET batch == MkBatch(p, ids)
            k == Len(Accepted(batch, log[p], dedup))
        IN /\ Len(log[p]) + k <= MaxLen
           /\ Send(p, batch)
           /\ IF k = 0 THEN LayoutSame /\ UNCHANGED fill
              ELSE /\ LayoutAll([segs EXCEPT ![p] = RefAppend(p, k)[1]], cacheLo)
                   /\ fill' = [fill EXCEPT ![p] = RefAppend(p, k)[2]]
           /\ fresh' = FALSE
           /\ Record([op |-> "append", p |-> p, ids |-> ids])

MCFlush ==
    /\ "flush" \in Ops
    /\ \E p \in P :
        /\ fill[p].unsaved > 0
        /\ Quiet /\ LayoutSame
        /\ fill' = [fill EXCEPT ![p].unsaved = 0]
        /\ fresh' = FALSE
        /\ Record([op |-> "flush", p |-> p])

MCBgSave ==
    /\ "bg_save" \in Ops
    /\ \E p \in P : fill[p].unsaved > 0
    /\ Quiet /\ LayoutSame
    /\ fill' = [p \in P |-> [fill[p] EXCEPT !.unsaved = 0]]
    /\ fresh' = FALSE
    /\ Record([op |-> "bg_save"])

MCRestart ==
    /\ "restart" \in Ops
    /\ ~fresh
    /\ Quiet /\ LayoutSame
    /\ fill' = [p \in P |-> [fill[p] EXCEPT !.unsaved = 0]]
    /\ fresh' = TRUE
    /\ \E mode \in {"graceful", "flush"} : Record([op |-> "restart", mode |-> mode])

MCPurge ==
    /\ "purge" \in Ops
    /\ \E p \in P : Len(log[p]) > 0
    /\ Purge
    /\ LayoutPurged([p \in P |-> <<[start |-> 0, closed |-> FALSE]>>], cacheLo)
    /\ fill' = [p \in P |-> [n |-> 0, unsaved |-> 0]]
    /\ fresh' = FALSE
    /\ Record([op |-> "purge"])

MCTick ==
    /\ "tick" \in Ops
    /\ now < MaxNow
    /\ Tick(1) /\ LayoutSame /\ UNCHANGED <<fill, fresh>>
    /\ Record([op |-> "tick", by |-> 1])

MCSetExpiry ==
    /\ "set_expiry" \in Ops
    /\ \E e \in ExpirySet \ {expiry} :
        /\ SetExpiry(e) /\ LayoutSame /\ UNCHANGED <<fill, fresh>>
        /\ Record([op |-> "set_expiry", e |-> e])

(* a maintenance pass as coded: every closed expired segment goes; a partition left without   *)
(* segments gets a fresh one at the end of its log                                             *)
AfterRetention(p) ==
    LET keep == SelectSeq([i \in 1..Len(segs[p]) |-> [s |-> segs[p][i], x |-> Expired(log[p], segs[p], i, expiry, now)]],
                          LAMBDA r : ~r.x)
        kept == [i \in 1..Len(keep) |-> keep[i].s]
    IN IF kept = <<>> THEN <<[start |-> Len(log[p]), closed |-> FALSE]>> ELSE kept

MCRetention ==
    /\ "retention" \in Ops
    /\ \E p \in P : AfterRetention(p) # segs[p]
    /\ Quiet
    /\ LayoutAll([p \in P |-> AfterRetention(p)], cacheLo)
    /\ fill' = [p \in P |-> IF AfterRetention(p) # segs[p] /\ ~LastSeg(AfterRetention(p)).closed
                                 /\ LastSeg(AfterRetention(p)).start = Len(log[p])
                            THEN [n |-> 0, unsaved |-> 0] ELSE fill[p]]
    /\ fresh' = FALSE
    /\ Record([op |-> "retention"])

MCStore ==
    /\ "store" \in Ops
    /\ \E p \in P : \E k \in KeySet : \E o \in 0..MaxLen :
        /\ k \in groups \/ k \notin GroupKeys
        /\ o <= CurOf(log[p]) + 1
        /\ IF StoreAllowed(p, o) THEN Store(p, k, o) ELSE Quiet
        /\ LayoutSame /\ UNCHANGED <<fill, fresh>>
        /\ Record([op |-> "store", who |-> k, p |-> p, o |-> o])

MCDeleteOffset ==
    /\ "del_offset" \in Ops
    /\ \E p \in P : \E k \in KeySet :
        /\ stored[p][k] # None
        /\ DeleteOffset(p, k) /\ LayoutSame /\ UNCHANGED <<fill, fresh>>
        /\ Record([op |-> "del_offset", who |-> k, p |-> p])

MCPollNext ==
    /\ "poll_next" \in Ops
    /\ \E p \in P : \E k \in KeySet : \E n \in {1, 2} : \E auto \in BOOLEAN :
        /\ k \in groups \/ k \notin GroupKeys
        /\ \E r \in NextSet(log[p], LoSet(lo[p], cacheLo[p]), stored[p][k], n) :
             /\ auto => Len(r) > 0
             /\ PollNext(p, k, r, auto)
        /\ auto  \* a poll without auto-commit changes nothing: the sweep performs those after every step
        /\ LayoutSame /\ UNCHANGED <<fill, fresh>>
        /\ Record([op |-> "poll_next", who |-> k, p |-> p, n |-> n, auto |-> auto])

(* auto-commit is a property of every poll, not only of 'next': a poll by offset with auto-commit stores the offset of the *)
(* last message it returned - also when that is BELOW the stored one (a consumer that re-reads moves its offset back)     *)
MCPollAuto ==
    /\ "poll_auto" \in Ops
    /\ \E p \in P : \E k \in KeySet : \E o \in 0..(Len(log[p]) - 1) : \E n \in {1, 2} :
        /\ k \in groups \/ k \notin GroupKeys
        /\ \E r \in Slices(log[p], LoSet(lo[p], cacheLo[p]), o, n) :
             /\ Len(r) > 0
             /\ PollNext(p, k, r, TRUE)
        /\ LayoutSame /\ UNCHANGED <<fill, fresh>>
        /\ Record([op |-> "poll_auto", who |-> k, p |-> p, o |-> o, n |-> n])

MCGroup ==
    /\ "group" \in Ops
    /\ \E k \in GroupKeys :
        /\ IF k \in groups THEN DeleteGroup(k) /\ Record([op |-> "del_group", who |-> k])
                           ELSE MakeGroup(k) /\ Record([op |-> "make_group", who |-> k])
        /\ LayoutSame /\ UNCHANGED <<fill, fresh>>

MCNext ==
    \/ MCSend \/ MCFlush \/ MCBgSave \/ MCRestart \/ MCPurge \/ MCTick \/ MCSetExpiry
    \/ MCRetention \/ MCStore \/ MCDeleteOffset \/ MCPollNext \/ MCPollAuto \/ MCGroup

Bounded == Len(hist) <= MaxOps

MCSpec == MCInit /\ [][MCNext]_mvars

View == <<vars, fill, fresh>>

(***************************************************************************)
(* Invariants and action properties checked on every bounded instance.     *)
(***************************************************************************)
AllSlicesShaped ==
    \A p \in P : \A o \in 0..(Len(log[p]) + 1) : \A n \in 1..(Len(log[p]) + 1) :
        SliceShape(log[p], LoSet(lo[p], cacheLo[p]), o, n)

(* C01: the log only grows (except purge), offsets are positions; C14: removals never move the end of the log *)
LogGrows == [][\A p \in P : \/ Len(log'[p]) >= Len(log[p]) /\ SubSeq(log'[p], 1, Len(log[p])) = log[p]
                            \/ (log'[p] = <<>> /\ lo'[p] = 0)]_mvars
(* C14: the earliest retained offset only moves up, only over closed expired segments, never past the end *)
LoMoves == [][\A p \in P : \/ lo'[p] = lo[p]
                           \/ (log'[p] = <<>> /\ lo'[p] = 0)
                           \/ /\ lo'[p] > lo[p] /\ lo'[p] <= Len(log[p]) /\ log'[p] = log[p]
                              /\ expiry # 0
                              /\ \A o \in lo[p]..(lo'[p] - 1) : log[p][o + 1].ts + expiry <= now]_mvars
(* C07: a step about identity k on partition p changes no other stored offset *)
StoredIsolated == [][\A p \in P : \A k \in KeySet :
                        stored'[p][k] # stored[p][k] =>
                            \/ log'[p] = <<>> /\ stored'[p][k] = None                                      \* purge
                            \/ k \in groups /\ k \notin groups' /\ stored'[p][k] = None                    \* group deletion
                            \/ \A q \in P : \A j \in KeySet : (q # p \/ j # k) => stored'[q][j] = stored[q][j]]_mvars
(* the open (last) segment is never the object of a removal while it holds unexpired messages *)
SegsCoverLog == \A p \in P : lo[p] <= Len(log[p]) /\ LastSeg(segs[p]).start <= Len(log[p])

(* script generation: print the history of every distinct state (VIEW hides hist => one script per state) *)
EmitScript == Len(hist) = 0 \/ PrintT(<<"SCRIPT", ToJson(hist)>>)
=============================================================================
