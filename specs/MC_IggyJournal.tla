---------------------------- MODULE MC_IggyJournal ----------------------------
EXTENDS IggyJournal
TamperInv == \A n \in 1..5 : TamperEvident(n)
=============================================================================
