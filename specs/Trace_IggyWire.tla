---------------------------- MODULE Trace_IggyWire ----------------------------
(* Validation of the wire lens (harness/src/wire_lens.rs): SDK-encode / server-decode round trips of every command type and garbage frames. *)
EXTENDS IggyWire, Json, IOUtils
Rec == ndJsonDeserialize(IOEnv.TRACE)
VARIABLES l, bad
tvars == <<vars, l, bad>>

RoundtripLabels(e) ==
    IF ~e.sdk_valid THEN {}     \* the SDK itself refuses to send it
    ELSE (IF e.decode = "panic" THEN {<<"C13.decoder_panic", e.type, e.len>>} ELSE {})
         \cup (IF e.decode \notin {"ok", "panic"} THEN {<<"C13.valid_request_rejected", e.type, e.decode, e.len>>} ELSE {})
         \cup (IF e.decode = "ok" /\ ~e.equal THEN {<<"C13.decoded_differently", e.type, e.len>>} ELSE {})
         \cup (IF e.decode = "ok" /\ ~e.valid_agree THEN {<<"C13.validation_disagrees", e.type>>} ELSE {})
GarbageLabels(e) ==
    (IF ~GarbageOK(e.is_valid, e.incomplete, e.outcome) THEN {<<"C13.garbage_outcome", e.kind, e.outcome>>} ELSE {})
    \cup (IF ~e.is_valid /\ ~e.unchanged THEN {<<"C13.garbage_changed_state", e.kind>>} ELSE {})
    \cup (IF ~e.other_ok THEN {<<"C13.other_connection_disturbed", e.kind>>} ELSE {})

(* a poll answer decoded by the SDK (binary framing or HTTP/JSON) is exactly what was sent, in every window *)
PollbackLabels(e) ==
    (IF e.res # "ok" THEN {<<"C13.poll_failed", e.transport, e.o, e.c, e.res>>} ELSE {})
    \cup (IF e.res = "ok" /\ e.got # e.want THEN {<<"C13.response_differs", e.transport, e.o, e.c, Len(e.got), Len(e.want)>>} ELSE {})
    \cup (IF e.res = "ok" /\ e.cur # e.cur_want THEN {<<"C13.response_current_offset", e.transport, e.cur, e.cur_want>>} ELSE {})

(* C19: the encryptor is lossless for every length, leaks nothing, and reports another key / damage as an error *)
CryptoLabels(e) ==
    (IF e.encrypt # "ok" \/ e.decrypt # "ok" \/ ~e.equal THEN {<<"C19.not_lossless", e.n, e.encrypt, e.decrypt>>} ELSE {})
    \cup (IF e.other_key # "error" THEN {<<"C19.other_key_not_an_error", e.n, e.other_key, e.other_key_equal>>} ELSE {})
    \cup (IF e.in_clear THEN {<<"C19.plaintext_in_ciphertext", e.n>>} ELSE {})
    \cup (IF e.damaged_ok # 0 \/ e.damaged_panic # 0 THEN {<<"C19.damaged_ciphertext", e.n, e.damaged_ok, e.damaged_panic>>} ELSE {})

TraceInit == Init /\ l = 1 /\ bad = {}
TraceNext ==
    /\ l <= Len(Rec) /\ l' = l + 1 /\ UNCHANGED vars
    /\ LET e == Rec[l] IN
       bad' = CASE e.ev = "roundtrip" -> RoundtripLabels(e)
                [] e.ev = "garbage" -> GarbageLabels(e)
                [] e.ev = "pollback" -> PollbackLabels(e)
                [] e.ev = "crypto" -> CryptoLabels(e)
                [] OTHER -> {}
TraceSpec == TraceInit /\ [][TraceNext]_tvars
NoBad == bad = {} \/ PrintT("BAD " \o ToJson([line |-> l - 1, sc |-> Rec[l - 1].sc, i |-> Rec[l - 1].i,
                                                    ev |-> Rec[l - 1].ev, labels |-> bad]))
TraceAccepted ==
    IF TLCGet("stats").diameter - 1 = Len(Rec) THEN PrintT(<<"CONSUMED", Len(Rec)>>)
    ELSE Print(<<"STUCK at line", TLCGet("stats").diameter>>, FALSE)
=============================================================================
