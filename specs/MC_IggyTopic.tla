---------------------------- MODULE MC_IggyTopic ----------------------------
(***************************************************************************)
(* Bounded instance of IggyTopic for exhaustive checking and script        *)
(* generation.  Sizes are abstract here: one message = one unit, the       *)
(* reported topic size is the number of retained messages; a segment       *)
(* closes at SegCap messages (reference layout as in MC_IggyLog).          *)
(***************************************************************************)
EXTENDS IggyTopic, Json

CONSTANTS P0Set, MaxP, Keys, MaxMsgs, MaxBatch, LimitSet, DelOldest, SegCap, MaxOps, Ops,
          Kinds   \* partitioning kinds the sends may use (a family may restrict them, e.g. balanced only: deep rotation histories)

VARIABLES fill,   \* ghost: [1..P -> Nat] messages in the open segment
          nextM,  \* next message number
          hist

mvars == <<vars, fill, nextM, hist>>

Record(op) == hist' = Append(hist, op)
LastSeg(sg) == sg[Len(sg)]
Total == LET s[i \in 0..P] == IF i = 0 THEN 0 ELSE s[i - 1] + Len(plog[i]) IN s[P]

MCInit ==
    /\ P \in P0Set
    /\ plog = [i \in 1..P |-> <<>>] /\ plo = [i \in 1..P |-> 0]
    /\ segs = [i \in 1..P |-> <<[start |-> 0, closed |-> FALSE]>>]
    /\ keyMap = {} /\ balHist = <<>>
    /\ limit \in LimitSet /\ delOldest = DelOldest /\ segBytes = SegCap
    /\ tsize = 0 /\ others = [w \in {"t2", "s2"} |-> 0]
    /\ fill = [i \in 1..P |-> 0] /\ nextM = 1 /\ hist = <<>>

(* reference layout after k messages were appended to partition p *)
RefSegs(p, k) ==
    LET sg0 == IF LastSeg(segs[p]).closed THEN segs[p] \o <<[start |-> Len(plog[p]), closed |-> FALSE]>> ELSE segs[p]
        n1 == (IF LastSeg(segs[p]).closed THEN 0 ELSE fill[p]) + k
    IN <<IF n1 >= SegCap THEN [sg0 EXCEPT ![Len(sg0)].closed = TRUE] ELSE sg0, n1>>

SizeAfter == tsize' = LET s[i \in 0..P'] == IF i = 0 THEN 0 ELSE s[i - 1] + (Len(plog'[i]) - plo'[i]) IN s[P']

MCSend ==
    /\ "send" \in Ops
    /\ \E kind \in Kinds : \E k \in 1..MaxBatch :
       \E v \in (IF kind = "id" THEN 1..(MaxP + 1) ELSE IF kind = "key" THEN Keys ELSE {0}) :
        /\ nextM + k - 1 <= MaxMsgs
        /\ LET ms == [i \in 1..k |-> nextM + i - 1] IN
           IF InvalidTarget(kind, v) \/ MustRefuse
           THEN /\ Nothing /\ UNCHANGED <<plo, segs, tsize, fill>>
           ELSE \E p \in 1..P :
                  /\ MayLand(kind, v, p)
                  /\ Send(kind, v, ms, p)
                  /\ Layout([segs EXCEPT ![p] = RefSegs(p, k)[1]], FALSE)
                  /\ fill' = [fill EXCEPT ![p] = RefSegs(p, k)[2]]
                  /\ SizeAfter
        /\ nextM' = nextM + k
        /\ Record(IF kind = "id" THEN [op |-> "send", kind |-> kind, v |-> v, k |-> k]
                  ELSE IF kind = "key" THEN [op |-> "send", kind |-> kind, key |-> v, k |-> k]
                  ELSE [op |-> "send", kind |-> kind, k |-> k])

MCAdd ==
    /\ "add_parts" \in Ops /\ P < MaxP
    /\ AddPartitions(1)
    /\ Layout([i \in 1..(P + 1) |-> IF i <= P THEN segs[i] ELSE <<[start |-> 0, closed |-> FALSE]>>], FALSE)
    /\ fill' = [i \in 1..(P + 1) |-> IF i <= P THEN fill[i] ELSE 0]
    /\ SizeAfter /\ UNCHANGED nextM
    /\ Record([op |-> "add_parts", k |-> 1])

MCDel ==
    /\ "del_parts" \in Ops /\ P > 0
    /\ \E k \in {1, 2, P + 1} :
        /\ RemovePartitions(k)
        /\ Layout([i \in 1..P' |-> segs[i]], FALSE)
        /\ fill' = [i \in 1..P' |-> fill[i]]
        /\ SizeAfter /\ UNCHANGED nextM
        /\ Record([op |-> "del_parts", k |-> k])

MCSetLimit ==
    /\ "set_limit" \in Ops
    /\ \E lim \in (LimitSet \cup {1}) \ {limit} :
        /\ IF LimitAllowed(lim) THEN SetLimit(lim) ELSE Nothing
        /\ UNCHANGED <<plo, segs, tsize, fill, nextM>>
        /\ Record([op |-> "set_limit", units |-> lim])

(* a maintenance pass as coded: almost full and deletion enabled => the first segment of every partition goes if closed *)
AfterMaintain(p) ==
    IF delOldest /\ AlmostFull /\ Len(segs[p]) > 1 /\ segs[p][1].closed THEN SubSeq(segs[p], 2, Len(segs[p])) ELSE segs[p]
MCMaintain ==
    /\ "maintain" \in Ops
    /\ \E p \in 1..P : AfterMaintain(p) # segs[p]
    /\ Nothing
    /\ Layout([p \in 1..P |-> AfterMaintain(p)], FALSE)
    /\ SizeAfter /\ UNCHANGED <<fill, nextM>>
    /\ Record([op |-> "maintain"])

MCPurge ==
    /\ "purge" \in Ops /\ Total > 0
    /\ Purge
    /\ Layout([i \in 1..P |-> <<[start |-> 0, closed |-> FALSE]>>], TRUE)
    /\ fill' = [i \in 1..P |-> 0]
    /\ SizeAfter /\ UNCHANGED nextM
    /\ Record([op |-> "purge"])

MCRestart ==
    /\ "restart" \in Ops /\ Len(hist) > 0 /\ hist[Len(hist)].op # "restart"
    /\ Restart /\ UNCHANGED <<plo, segs, tsize, fill, nextM>>
    /\ Record([op |-> "restart"])

MCOther ==
    /\ "send_other" \in Ops
    /\ \E w \in {"t2", "s2"} :
        /\ others[w] < 2
        /\ SendOther(w, 1) /\ UNCHANGED <<plo, segs, tsize, fill, nextM>>
        /\ Record([op |-> "send_other", which |-> w, k |-> 1])

MCNext == MCSend \/ MCAdd \/ MCDel \/ MCSetLimit \/ MCMaintain \/ MCPurge \/ MCRestart \/ MCOther
Bounded == Len(hist) <= MaxOps
MCSpec == MCInit /\ [][MCNext]_mvars
View == <<vars, fill, nextM>>

(* C15: while the gate is closed nothing is stored; C17/C15: offsets keep increasing *)
GateHolds == [][MustRefuse => \A p \in 1..P : p <= P' => plog'[p] = plog[p] \/ plog'[p] = <<>>]_mvars
(* C15: clean-up never takes the newest data and never more than the first segment *)
NeverNewest == [][\A p \in 1..P : p <= P' =>
                    \/ Len(plog'[p]) = 0
                    \/ plo'[p] = plo[p]
                    \/ (plo'[p] > plo[p] /\ plo'[p] <= Len(plog[p]) /\ Len(segs[p]) > 1 /\ plo'[p] = segs[p][2].start
                        /\ delOldest /\ AlmostFull)]_mvars
(* C17: any P consecutive balanced sends hit P distinct partitions *)
BalancedSpread == \A i, j \in 1..Len(balHist) : (i < j /\ j - i < P) => balHist[i] # balHist[j]
EmitScript == Len(hist) = 0 \/ PrintT(<<"SCRIPT", ToJson(hist)>>)
=============================================================================
