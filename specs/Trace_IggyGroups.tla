--------------------------- MODULE Trace_IggyGroups ---------------------------
(* Trace validation for the consumer-group lens (harness/src/grp_lens.rs); monitor style as the other trace specs. *)
EXTENDS IggyGroups, Json, IOUtils

Rec == ndJsonDeserialize(IOEnv.TRACE)
VARIABLES l, dead, bad
tvars == <<vars, l, dead, bad>>

Ok(e) == e.res = "ok"
SetOf(seq) == { seq[i] : i \in 1..Len(seq) }
(* the assignment the server reports: members is a list of <<client, <<partitions>>>>; unknown members are client 0 *)
ShareOf(ob) == [m \in { ob.members[i][1] : i \in 1..Len(ob.members) } |->
                   UNION { SetOf(ob.members[i][2]) : i \in { j \in 1..Len(ob.members) : ob.members[j][1] = m } }]

(* ... made total over the harness' clients: a member the answer does not list has an empty share here (the sweep labels the *)
(* missing member; nothing may fail to evaluate on a wrong answer)                                                         *)
TotalShare(ob) == LET sh == ShareOf(ob) IN [m \in (DOMAIN sh) \cup (1..3) |-> IF m \in DOMAIN sh THEN sh[m] ELSE {}]

Reset(e) ==
    /\ P' = e.parts /\ len' = [p \in 1..e.parts |-> 0] /\ goff' = [p \in 1..e.parts |-> None]
    /\ members' = {} /\ share' = <<>> /\ recent' = <<>> /\ lastp' = <<>>
    /\ dead' = FALSE /\ bad' = {}
Fatal(e) == UNCHANGED vars /\ dead' = TRUE /\ bad' = {<<"X.fatal", e.ev, e.fatal>>}
Skip == UNCHANGED <<vars, dead>> /\ bad' = {}

Input(e) ==
    LET sh2 == TotalShare(e.obs) IN
    CASE e.ev = "join" -> IF Ok(e) THEN Join(e.c, sh2) ELSE UNCHANGED vars
      [] e.ev \in {"leave", "disconnect"} -> IF Ok(e) /\ e.c \in members THEN Leave(e.c, sh2) ELSE UNCHANGED vars
      [] e.ev = "add_parts" -> IF Ok(e) THEN AddPartitions(e.k, sh2) ELSE UNCHANGED vars
      [] e.ev = "del_parts" -> IF Ok(e) THEN RemovePartitions(e.k, sh2) ELSE UNCHANGED vars
      [] e.ev = "send" -> IF Ok(e) /\ e.p \in 1..P THEN Send(e.p, e.k) ELSE UNCHANGED vars
      [] e.ev = "poll" ->
            IF Ok(e) /\ e.c \in members /\ e.part \in 1..P THEN Poll(e.c, e.part, e.n, e.auto)
            ELSE UNCHANGED vars
      [] e.ev = "store_last" ->
            IF Ok(e) /\ e.c \in members /\ lastp[e.c] \in 1..P THEN StoreLast(e.c, e.o) ELSE UNCHANGED vars
      [] e.ev = "restart" -> Restart
      [] OTHER -> UNCHANGED vars

InputLabels(e) ==
    CASE e.ev = "poll" ->
            IF ~Ok(e) THEN (IF e.c \in members /\ P > 0 THEN {<<"C08.poll_refused", e.c, e.res>>} ELSE {})   \* no partitions: nothing to poll
            ELSE IF e.c \notin members THEN {<<"C08.poll_by_non_member", e.c>>}
            ELSE IF share[e.c] = {} THEN (IF e.part # 0 \/ Len(e.r) # 0 THEN {<<"C08.served_without_share", e.c, e.part>>} ELSE {})
            ELSE (IF e.part \notin share[e.c] THEN {<<"C08.foreign_partition", e.c, e.part>>} ELSE {})
                 \cup (IF e.part \in share[e.c] /\ ~MayServe(e.c, e.part) THEN {<<"C08.rotation", e.c, e.part>>} ELSE {})
                 \cup (IF e.part \in 1..P /\ e.r # NextOffsets(e.part, e.n) THEN {<<"C08.exactly_once", e.part, goff[e.part]>>} ELSE {})
      [] e.ev = "store_last" -> IF ~Ok(e) /\ e.c \in members /\ lastp[e.c] \in 1..P /\ e.o < len[lastp[e.c]]
                                THEN {<<"C07.group_store_refused", e.c, e.res>>} ELSE {}
      [] e.ev \in {"join", "leave", "add_parts", "del_parts", "send"} -> IF Ok(e) THEN {} ELSE {<<"X.refused", e.ev, e.res>>}
      [] OTHER -> {}

SweepLabels(e) ==
    LET ob == e.obs IN
    (IF ob.P # P' \/ ob.gparts # P' THEN {<<"C08.partitions_count", ob.P, ob.gparts, P'>>} ELSE {})
    \cup (IF { ob.members[i][1] : i \in 1..Len(ob.members) } # members' THEN {<<"C08.members", ob.members>>} ELSE {})
    \cup (IF ~ExclusiveBalanced(ShareOf(ob), { ob.members[i][1] : i \in 1..Len(ob.members) }, ob.P)
          THEN {<<"C08.assignment", ob.members>>} ELSE {})
    \cup (IF Len(ob.goff) = P' /\ \E p \in 1..P' : ob.goff[p] # goff'[p]
          THEN {<<"C07.group_offset", CHOOSE p \in 1..P' : ob.goff[p] # goff'[p], ob.goff>>} ELSE {})
    \cup (IF Len(ob.lens) = P' /\ \E p \in 1..P' : ob.lens[p] # len'[p] THEN {<<"C16.count", ob.lens>>} ELSE {})

Step(e) ==
    /\ Input(e) /\ dead' = dead
    /\ bad' = InputLabels(e) \cup SweepLabels(e)

TraceInit == l = 1 /\ dead = TRUE /\ bad = {} /\ P = 0 /\ len = <<>> /\ goff = <<>> /\ members = {} /\ share = <<>>
             /\ recent = <<>> /\ lastp = <<>>
TraceNext ==
    /\ l <= Len(Rec) /\ l' = l + 1
    /\ LET e == Rec[l] IN
       IF e.ev = "reset" THEN Reset(e) ELSE IF dead THEN Skip ELSE IF "fatal" \in DOMAIN e THEN Fatal(e) ELSE Step(e)
TraceSpec == TraceInit /\ [][TraceNext]_tvars
NoBad == bad = {} \/ PrintT("BAD " \o ToJson([line |-> l - 1, sc |-> Rec[l - 1].sc, i |-> Rec[l - 1].i,
                                                    ev |-> Rec[l - 1].ev, labels |-> bad]))
TraceAccepted ==
    IF TLCGet("stats").diameter - 1 = Len(Rec) THEN PrintT(<<"CONSUMED", Len(Rec)>>)
    ELSE Print(<<"STUCK at line", TLCGet("stats").diameter>>, FALSE)
=============================================================================
