SPECIFICATION TraceSpec
INVARIANT NoBad
POSTCONDITION TraceAccepted
CHECK_DEADLOCK FALSE
