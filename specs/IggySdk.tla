------------------------------- MODULE IggySdk -------------------------------
(***************************************************************************)
(* Reference algorithm of the SDK's high-level consumer (C20, Part 2):     *)
(* Fetch, Yield, the asynchronous delivery of commits, the interval        *)
(* commit, Drop and Recreate - structured like                             *)
(* sdk/src/clients/consumer.rs: one action per step the code takes on the  *)
(* wire or towards the application.  The property predicates are in        *)
(* IggySdkProps (shared with the trace specification).                     *)
(*                                                                         *)
(* Three places where the code as found went wrong are kept as constants,  *)
(* so that TLC refutes the as-found variants (negative controls) and       *)
(* checks the repaired one:                                                *)
(*   CatchUp  "none"        as found: a poll whose messages were all       *)
(*                          consumed already commits nothing (D28: stall   *)
(*                          when the cadence is coarser than the batch)    *)
(*            "lagging"     first repair (be1179c): commit the consumed    *)
(*                          offset if the LOCALLY remembered stored offset *)
(*                          is behind - but that memory defaults to 0,     *)
(*                          i.e. "offset 0 stored" (D29: stall at 0)       *)
(*            "nothing_new" repaired (6a777a7): such a poll proves the     *)
(*                          server lags; commit the consumed offset        *)
(*   Zombie   TRUE          as found: the interval task outlives the       *)
(*                          consumer object (D30)                          *)
(***************************************************************************)
EXTENDS IggySdkProps

CONSTANTS Parts, MaxLen, Batches, Modes, Nth, CatchUp, Zombie
VARIABLES len,        \* [Parts -> Nat] messages in each partition (offsets 0..len-1)
          committed,  \* [Parts -> Int] offset stored on the server for the consumer identity (-1: none)
          alive, buf, lastC, hasC,
          lstored,    \* [Parts -> Nat] the consumer's local memory of what it stored (last_stored_offsets: absent = 0 !)
          queue,      \* commits handed to the background task (they outlive the consumer object)
          zc, zs,     \* the dropped consumer's consumed / locally-stored offsets, still used by its interval task (Zombie)
          rr,
          batch, mode, group,            \* settings, fixed by Init
          ylast, ystart, yset, everY, everF, ok,
          liveStored  \* [Parts -> Int] highest offset the LIVE incarnation has committed itself (-1: none)
avars == <<len, committed, alive, buf, lastC, hasC, lstored, queue, zc, zs, rr, batch, mode, group,
           ylast, ystart, yset, everY, everF, ok, liveStored>>
None == [p \in Parts |-> -1]
Zero == [p \in Parts |-> 0]

AInit == /\ len = Zero /\ committed = None /\ alive = TRUE /\ buf = <<>>
         /\ lastC = None /\ hasC = [p \in Parts |-> FALSE] /\ lstored = Zero /\ queue = <<>> /\ zc = None /\ zs = Zero /\ rr = 1
         /\ batch \in Batches /\ mode \in Modes /\ group \in BOOLEAN
         /\ ylast = None /\ ystart = None /\ yset = [p \in Parts |-> {}] /\ everY = None /\ everF = None /\ ok = TRUE
         /\ liveStored = None
Settings == <<batch, mode, group>>
Hist == <<ylast, ystart, yset, everY, everF, ok>>

Produce(p) == /\ len[p] < MaxLen /\ len' = [len EXCEPT ![p] = @ + 1]
              /\ UNCHANGED <<committed, alive, buf, lastC, hasC, lstored, queue, zc, zs, rr, Settings, Hist, liveStored>>

(* store_consumer_offset(): skipped when the local memory says it is stored already - except offset 0, which is never skipped *)
Skipped(mem, p, o) == o >= 1 /\ o <= mem[p]

Served == IF group THEN rr ELSE 1
RawOf(p) == LET from == committed[p] + 1  to == MinOf(from + batch - 1, len[p] - 1)
            IN  [i \in 1..MaxOf(to - from + 1, 0) |-> from + i - 1]
KeptOf(p) == SelectSeq(RawOf(p), LAMBDA o : ~hasC[p] \/ o > lastC[p])
NothingNew(p) == RawOf(p) # <<>> /\ KeptOf(p) = <<>> /\ hasC[p]
CatchUpWould(p) == /\ mode \notin PollingModes /\ mode # "manual" /\ NothingNew(p)
                   /\ \/ CatchUp = "nothing_new"
                      \/ (CatchUp = "lagging" /\ lstored[p] < lastC[p])
(* one poll_messages request: the server answers from the committed offset; what was already consumed is filtered *)
Fetch == /\ alive /\ buf = <<>>
         /\ LET p == Served  raw == RawOf(p)  kept == KeptOf(p) IN
            /\ buf' = [i \in 1..Len(kept) |-> <<p, kept[i], len[p] - 1>>]   \* (partition, offset, the partition's current offset as answered)
            /\ IF mode \in PollingModes /\ raw # <<>>
               THEN /\ committed' = [committed EXCEPT ![p] = raw[Len(raw)]]          \* the server commits on fetch
                    /\ lstored' = [lstored EXCEPT ![p] = MaxOf(lastC[p], 0)] /\ UNCHANGED liveStored
               ELSE IF CatchUpWould(p)
               THEN /\ committed' = [committed EXCEPT ![p] = lastC[p]] /\ lstored' = [lstored EXCEPT ![p] = lastC[p]]
                    /\ liveStored' = [liveStored EXCEPT ![p] = MaxOf(@, lastC[p])]
               ELSE UNCHANGED <<committed, lstored, liveStored>>
            /\ everF' = IF raw # <<>> THEN [everF EXCEPT ![p] = MaxOf(@, raw[Len(raw)])] ELSE everF
            /\ ystart' = IF raw # <<>> /\ ystart[p] = -1 THEN [ystart EXCEPT ![p] = raw[1]] ELSE ystart
            /\ rr' = IF group THEN (rr % Cardinality(Parts)) + 1 ELSE rr
         /\ UNCHANGED <<len, alive, lastC, hasC, queue, zc, zs, Settings, ylast, yset, everY, ok>>

(* the When(...) modes commit inside the Stream; the After(...) modes of consume_messages() after the application's handler:   *)
(* the same moment at this grain - except that "after all" means the end of the PARTITION as answered, not of the batch      *)
CommitOnYield(o, last, cur) == \/ mode \in {"each", "interval_or_each", "manual", "after_each", "interval_or_after_each"}
                               \/ (mode \in {"nth", "interval_or_nth", "after_nth", "interval_or_after_nth"} /\ o % Nth = 0)
                               \/ (mode \in {"all", "interval_or_all"} /\ last)
                               \/ (mode \in {"after_all", "interval_or_after_all"} /\ o = cur)
(* the Stream hands one message to the application *)
Yield == /\ alive /\ buf # <<>>
         /\ LET p == Head(buf)[1]  o == Head(buf)[2] IN
            /\ buf' = Tail(buf)
            /\ lastC' = [lastC EXCEPT ![p] = o] /\ hasC' = [hasC EXCEPT ![p] = TRUE]
            /\ queue' = IF CommitOnYield(o, Tail(buf) = <<>>, Head(buf)[3]) THEN Append(queue, <<p, o, alive>>) ELSE queue
            /\ ok' = (ok /\ YieldInOrder(ylast, ystart, p, o))
            /\ ylast' = [ylast EXCEPT ![p] = o] /\ yset' = [yset EXCEPT ![p] = @ \cup {o}]
            /\ everY' = [everY EXCEPT ![p] = MaxOf(@, o)]
         /\ UNCHANGED <<len, committed, alive, lstored, zc, zs, rr, Settings, ystart, everF, liveStored>>
(* the background task delivers one queued commit; it belongs to the live consumer (its memory applies) or to a dropped one *)
Deliver == /\ queue # <<>>
           /\ LET p == Head(queue)[1]  o == Head(queue)[2] IN
              IF alive /\ Skipped(lstored, p, o)
              THEN UNCHANGED <<committed, lstored, liveStored>>
              ELSE /\ committed' = [committed EXCEPT ![p] = o]
                   /\ IF alive THEN lstored' = [lstored EXCEPT ![p] = o] /\ liveStored' = [liveStored EXCEPT ![p] = MaxOf(@, o)]
                      ELSE UNCHANGED <<lstored, liveStored>>
           /\ queue' = Tail(queue)
           /\ UNCHANGED <<len, alive, buf, lastC, hasC, zc, zs, rr, Settings, Hist>>
(* the interval task stores the consumed offset of some partition *)
IntervalTick == /\ alive /\ mode \in IntervalModes
                /\ \E p \in Parts : /\ hasC[p] /\ ~Skipped(lstored, p, lastC[p])
                                    /\ committed' = [committed EXCEPT ![p] = lastC[p]]
                                    /\ lstored' = [lstored EXCEPT ![p] = lastC[p]]
                                    /\ liveStored' = [liveStored EXCEPT ![p] = MaxOf(@, lastC[p])]
                /\ UNCHANGED <<len, alive, buf, lastC, hasC, queue, zc, zs, rr, Settings, Hist>>
(* ... and, as found, goes on doing so with the dropped consumer's last position *)
ZombieTick == /\ Zombie /\ mode \in IntervalModes
              /\ \E p \in Parts : /\ zc[p] # -1 /\ ~Skipped(zs, p, zc[p])
                                  /\ committed' = [committed EXCEPT ![p] = zc[p]]
                                  /\ zs' = [zs EXCEPT ![p] = zc[p]]
              /\ UNCHANGED <<len, alive, buf, lastC, hasC, lstored, queue, zc, rr, Settings, Hist, liveStored>>
Drop == /\ alive /\ alive' = FALSE /\ buf' = <<>> /\ lastC' = None /\ hasC' = [p \in Parts |-> FALSE] /\ lstored' = Zero
        /\ zc' = [p \in Parts |-> IF hasC[p] THEN lastC[p] ELSE -1] /\ zs' = lstored
        /\ ylast' = None /\ ystart' = None /\ yset' = [p \in Parts |-> {}] /\ liveStored' = None
        /\ UNCHANGED <<len, committed, queue, rr, Settings, everY, everF, ok>>
(* a new consumer object with the same identity, once the old one's queued commits have landed *)
Recreate == /\ ~alive /\ queue = <<>> /\ alive' = TRUE
            /\ UNCHANGED <<len, committed, buf, lastC, hasC, lstored, queue, zc, zs, rr, Settings, Hist, liveStored>>

ANext == (\E p \in Parts : Produce(p)) \/ Fetch \/ Yield \/ Deliver \/ IntervalTick \/ ZombieTick \/ Drop \/ Recreate
ASpec == AInit /\ [][ANext]_avars

MyParts == IF group THEN Parts ELSE {1}
(* the consumer has nothing in hand, its commits have landed and no poll would bring or change anything *)
Idle == /\ alive /\ buf = <<>> /\ queue = <<>>
        /\ \A p \in MyParts : KeptOf(p) = <<>> /\ ~CatchUpWould(p)
        /\ (mode \in IntervalModes => \A p \in MyParts : hasC[p] => (committed[p] >= lastC[p] \/ Skipped(lstored, p, lastC[p])))
(* every message of its partitions: yielded by this incarnation, or acknowledged before it first looked *)
Complete == Idle => \A p \in MyParts : \A o \in 0..(len[p] - 1) :
                      o \in yset[p] \/ (ystart[p] # -1 /\ o < ystart[p]) \/ (ystart[p] = -1 /\ o <= committed[p])
InOrderOnce == ok
InvCommitLeFetched == CommitLeFetched(committed, everF, Parts)
InvCommitLeYielded == mode \notin PollingModes => CommitLeYielded(committed, everY, Parts)
(* a consumer object that has been dropped never moves the identity's offset back under its successor: what the live consumer *)
(* has committed itself stays committed.  (The live consumer's own commits may overtake each other - only ever back to offset *)
(* 0, which its "already stored" shortcut never skips; the property speaks of what it commits, not of their order.)          *)
NoRewindByDropped == [][ZombieTick => \A p \in Parts : committed'[p] >= liveStored[p]]_avars
=============================================================================
