------------------------------- MODULE IggySdk -------------------------------
(***************************************************************************)
(* Reference algorithm of the SDK's high-level consumer (C20, Part 2):     *)
(* Fetch, Yield, the asynchronous delivery of commits, the interval        *)
(* commit, Drop and Recreate - structured like                             *)
(* sdk/src/clients/consumer.rs: one action per step the code takes on the  *)
(* wire or towards the application.  The property predicates are in        *)
(* IggySdkProps (shared with the trace specification).                     *)
(***************************************************************************)
EXTENDS IggySdkProps

(* ---- Part 2: reference algorithm (strategy "next") ---- *)
CONSTANTS Parts, MaxLen, Batches, Modes, Nth,
          CatchUp   \* TRUE: the consumer as repaired (fix be1179c); FALSE: as found - Complete fails for the mode "nth"
VARIABLES len, committed, alive, buf, lastC, hasC, queue, rr,
          batch, mode, group,            \* settings, fixed by Init
          ylast, ystart, yset, everY, everF, ok
avars == <<len, committed, alive, buf, lastC, hasC, queue, rr, batch, mode, group, ylast, ystart, yset, everY, everF, ok>>
None == [p \in Parts |-> -1]

AInit == /\ len = [p \in Parts |-> 0] /\ committed = None /\ alive = TRUE /\ buf = <<>>
         /\ lastC = None /\ hasC = [p \in Parts |-> FALSE] /\ queue = <<>> /\ rr = 1
         /\ batch \in Batches /\ mode \in Modes /\ group \in BOOLEAN
         /\ ylast = None /\ ystart = None /\ yset = [p \in Parts |-> {}] /\ everY = None /\ everF = None /\ ok = TRUE
Settings == <<batch, mode, group>>

Produce(p) == /\ len[p] < MaxLen /\ len' = [len EXCEPT ![p] = @ + 1]
              /\ UNCHANGED <<committed, alive, buf, lastC, hasC, queue, rr, Settings, ylast, ystart, yset, everY, everF, ok>>

Served == IF group THEN rr ELSE 1
RawOf(p) == LET from == committed[p] + 1  to == MinOf(from + batch - 1, len[p] - 1)
            IN  [i \in 1..MaxOf(to - from + 1, 0) |-> from + i - 1]
KeptOf(p) == SelectSeq(RawOf(p), LAMBDA o : ~hasC[p] \/ o > lastC[p])
CatchUpWould(p) == /\ CatchUp /\ mode \notin PollingModes /\ mode # "manual"
                   /\ RawOf(p) # <<>> /\ KeptOf(p) = <<>> /\ hasC[p] /\ committed[p] < lastC[p]
(* one poll_messages request: the server answers from the committed offset; what was already consumed is filtered *)
Fetch == /\ alive /\ buf = <<>>
         /\ LET p == Served  raw == RawOf(p)  kept == KeptOf(p) IN
            /\ buf' = [i \in 1..Len(kept) |-> <<p, kept[i]>>]
            /\ committed' = IF mode \in PollingModes /\ raw # <<>> THEN [committed EXCEPT ![p] = raw[Len(raw)]]
                            \* nothing new although the poll brought messages: the stored offset lags behind the consumed one
                            \* (coarse commit cadence); the consumed offset is committed so that the next poll moves on
                            ELSE IF CatchUpWould(p) THEN [committed EXCEPT ![p] = lastC[p]]
                            ELSE committed
            /\ everF' = IF raw # <<>> THEN [everF EXCEPT ![p] = MaxOf(@, raw[Len(raw)])] ELSE everF
            /\ ystart' = IF raw # <<>> /\ ystart[p] = -1 THEN [ystart EXCEPT ![p] = raw[1]] ELSE ystart
            /\ rr' = IF group THEN (rr % Cardinality(Parts)) + 1 ELSE rr
         /\ UNCHANGED <<len, alive, lastC, hasC, queue, Settings, ylast, yset, everY, ok>>

CommitOnYield(o, last) == \/ mode \in {"each", "interval_or_each", "manual"}
                          \/ (mode \in {"nth", "interval_or_nth"} /\ o % Nth = 0)
                          \/ (mode \in {"all", "interval_or_all"} /\ last)
(* the Stream hands one message to the application *)
Yield == /\ alive /\ buf # <<>>
         /\ LET p == Head(buf)[1]  o == Head(buf)[2] IN
            /\ buf' = Tail(buf)
            /\ lastC' = [lastC EXCEPT ![p] = o] /\ hasC' = [hasC EXCEPT ![p] = TRUE]
            /\ queue' = IF CommitOnYield(o, Tail(buf) = <<>>) THEN Append(queue, <<p, o>>) ELSE queue
            /\ ok' = (ok /\ YieldInOrder(ylast, ystart, p, o))
            /\ ylast' = [ylast EXCEPT ![p] = o] /\ yset' = [yset EXCEPT ![p] = @ \cup {o}]
            /\ everY' = [everY EXCEPT ![p] = MaxOf(@, o)]
         /\ UNCHANGED <<len, committed, alive, rr, Settings, ystart, everF>>
(* the background task delivers one queued commit (it outlives the consumer object) *)
Deliver == /\ queue # <<>>
           /\ committed' = [committed EXCEPT ![Head(queue)[1]] = Head(queue)[2]]
           /\ queue' = Tail(queue)
           /\ UNCHANGED <<len, alive, buf, lastC, hasC, rr, Settings, ylast, ystart, yset, everY, everF, ok>>
(* the interval task stores the consumed offset of some partition *)
IntervalTick == /\ alive /\ mode \in IntervalModes
                /\ \E p \in Parts : hasC[p] /\ committed' = [committed EXCEPT ![p] = lastC[p]]
                /\ UNCHANGED <<len, alive, buf, lastC, hasC, queue, rr, Settings, ylast, ystart, yset, everY, everF, ok>>
Drop == /\ alive /\ alive' = FALSE /\ buf' = <<>> /\ lastC' = None /\ hasC' = [p \in Parts |-> FALSE]
        /\ ylast' = None /\ ystart' = None /\ yset' = [p \in Parts |-> {}]
        /\ UNCHANGED <<len, committed, queue, rr, Settings, everY, everF, ok>>
(* a new consumer object with the same identity, once the old one's commits have landed *)
Recreate == /\ ~alive /\ queue = <<>> /\ alive' = TRUE
            /\ UNCHANGED <<len, committed, buf, lastC, hasC, queue, rr, Settings, ylast, ystart, yset, everY, everF, ok>>

ANext == (\E p \in Parts : Produce(p)) \/ Fetch \/ Yield \/ Deliver \/ IntervalTick \/ Drop \/ Recreate
ASpec == AInit /\ [][ANext]_avars

MyParts == IF group THEN Parts ELSE {1}
(* the consumer has nothing in hand, its commits have landed and no poll would bring anything new *)
Idle == /\ alive /\ buf = <<>> /\ queue = <<>>
        /\ \A p \in MyParts : KeptOf(p) = <<>> /\ ~CatchUpWould(p)
        /\ (mode \in IntervalModes => \A p \in MyParts : hasC[p] => committed[p] >= lastC[p])
(* every message of its partitions: yielded by this incarnation, or acknowledged before it first looked *)
Complete == Idle => \A p \in MyParts : \A o \in 0..(len[p] - 1) :
                      o \in yset[p] \/ (ystart[p] # -1 /\ o < ystart[p]) \/ (ystart[p] = -1 /\ o <= committed[p])
InOrderOnce == ok
InvCommitLeFetched == CommitLeFetched(committed, everF, Parts)
InvCommitLeYielded == mode \notin PollingModes => CommitLeYielded(committed, everY, Parts)
=============================================================================
