SPECIFICATION MCSpec
CONSTANTS
    NParts = 2
    KeySet = {"c1","c2","g1"}
    GroupKeys = {"g1"}
    DedupOn = FALSE
    IdSet = {0}
    MaxLen = 3
    MaxBatch = 2
    MaxNow = 0
    ExpirySet = {0}
    Threshold = 1000
    SegCap = 1000
    MaxOps = 4
    Ops = {"append","store","del_offset","poll_next","purge","restart","group"}
CHECK_DEADLOCK FALSE
CONSTRAINT Bounded
INVARIANT EmitScript
