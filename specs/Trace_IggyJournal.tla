-------------------------- MODULE Trace_IggyJournal --------------------------
(* Validation of the journal lens (harness/src/jrn_lens.rs): outcomes of forced schedules / injected failures on the real *)
(* FileState and of every concrete tamper instance on a real journal file, judged by the loader predicate of IggyJournal. *)
EXTENDS Integers, Sequences, FiniteSets, TLC, Json, IOUtils

Rec == ndJsonDeserialize(IOEnv.TRACE)
VARIABLES l, bad
tvars == <<l, bad>>

Consecutive(ix) == \A i \in 1..Len(ix) : ix[i] = i - 1
Count(seq, v) == Cardinality({ i \in 1..Len(seq) : seq[i] = v })

SchedLabels(e) ==
    (IF e.load # "ok" THEN {<<"C11.unloadable", e.order, e.faults, e.load>>} ELSE {})
    \cup (IF e.load = "ok" /\ ~Consecutive(e.indices) THEN {<<"C11.indices", e.indices>>} ELSE {})
    (* every acknowledged command is in the journal: pre-existing entries plus the acknowledged appliers *)
    \cup (IF e.load = "ok" /\ Len(e.indices) # e.pre + Count(e.acks, TRUE) THEN {<<"C11.acked_missing", Len(e.indices), e.pre, e.acks>>} ELSE {})
    \cup (IF e.again \notin {"ok"} THEN {<<"C11.unloadable_after_restart", e.again>>} ELSE {})

TamperLabels(e) ==
    CASE e.outcome = "panic" -> {<<"C11.loader_crash", e.kind, e.pos, e.arg>>}
      [] e.outcome = "different" -> {<<"C11.different_history", e.kind, e.pos, e.arg>>}
      [] e.outcome = "same" -> {<<"C11.corruption_unnoticed", e.kind, e.pos, e.arg>>}
      [] e.outcome = "prefix" -> IF e.suffix_loss THEN {} ELSE {<<"C11.prefix_without_suffix_loss", e.kind, e.pos, e.arg, e.k>>}
      [] OTHER -> {}

TraceInit == l = 1 /\ bad = {}
TraceNext ==
    /\ l <= Len(Rec) /\ l' = l + 1
    /\ LET e == Rec[l] IN
       bad' = CASE e.ev = "sched" -> SchedLabels(e)
                [] e.ev = "tamper" -> TamperLabels(e)
                [] OTHER -> {}
TraceSpec == TraceInit /\ [][TraceNext]_tvars
NoBad == bad = {} \/ PrintT("BAD " \o ToJson([line |-> l - 1, sc |-> Rec[l - 1].sc, i |-> Rec[l - 1].i,
                                                    ev |-> Rec[l - 1].ev, labels |-> bad]))
TraceAccepted ==
    IF TLCGet("stats").diameter - 1 = Len(Rec) THEN PrintT(<<"CONSUMED", Len(Rec)>>)
    ELSE Print(<<"STUCK at line", TLCGet("stats").diameter>>, FALSE)
=============================================================================
