-------------------------- MODULE MC_IggyCatalogue --------------------------
(***************************************************************************)
(* Bounded instance of IggyCatalogue: exhaustive check of WellFormed over  *)
(* every command sequence (valid and invalid commands alike) and           *)
(* generation of command scripts.  Server-chosen ids are any free id.      *)
(***************************************************************************)
EXTENDS IggyCatalogue, Json

CONSTANTS SIds, SNames,     \* stream ids a create may request (0 = server's choice) and names
          TIds, TNames, GIds, GNames, UNames, Clients,
          MaxId,            \* bound for server-chosen ids
          MaxOps, Ops,
          Seeded            \* TRUE: start from a populated catalogue (the set-up commands are the beginning of the script)

VARIABLE hist
mvars == <<vars, hist>>
Record(op) == hist' = Append(hist, op)

Refs(ids, names) == { [by |-> "id", v |-> i] : i \in ids \ {0} } \cup { [by |-> "name", v |-> n] : n \in names }
SRefs == Refs(SIds \cup {1}, SNames)
TRefs == Refs(TIds \cup {1}, TNames)
GRefs == Refs(GIds \cup {1}, GNames)
URefs == Refs({1, 2, 3}, UNames)
FreshIn(used) == { i \in 1..MaxId : i \notin used }

SeedScript == <<
    [op |-> "create_stream", id |-> 0, name |-> "sa"],
    [op |-> "create_topic", s |-> [by |-> "id", v |-> 1], id |-> 0, name |-> "ta", parts |-> 2],
    [op |-> "create_topic", s |-> [by |-> "id", v |-> 1], id |-> 0, name |-> "tb", parts |-> 1],
    [op |-> "create_group", s |-> [by |-> "id", v |-> 1], t |-> [by |-> "id", v |-> 1], id |-> 0, name |-> "ga"],
    [op |-> "create_group", s |-> [by |-> "id", v |-> 1], t |-> [by |-> "id", v |-> 2], id |-> 0, name |-> "ga"],
    [op |-> "join", c |-> 1, s |-> [by |-> "id", v |-> 1], t |-> [by |-> "id", v |-> 1], g |-> [by |-> "id", v |-> 1]],
    [op |-> "join", c |-> 1, s |-> [by |-> "id", v |-> 1], t |-> [by |-> "id", v |-> 2], g |-> [by |-> "id", v |-> 1]],
    [op |-> "join", c |-> 2, s |-> [by |-> "id", v |-> 1], t |-> [by |-> "id", v |-> 2], g |-> [by |-> "id", v |-> 1]],
    [op |-> "send", s |-> [by |-> "id", v |-> 1], t |-> [by |-> "id", v |-> 1], p |-> 1, k |-> 2] >>
MCInit ==
    IF Seeded
    THEN /\ S = {<<1, "sa">>} /\ T = {<<1, 1, "ta", 2>>, <<1, 2, "tb", 1>>}
         /\ G = {<<1, 1, 1, "ga">>, <<1, 2, 1, "ga">>}
         /\ Cnt = {<<1, 1, 1, 2>>, <<1, 1, 2, 0>>, <<1, 2, 1, 0>>}
         /\ Mem = {<<1, 1, 1, 1>>, <<1, 1, 2, 1>>, <<2, 1, 2, 1>>}
         /\ U = {<<1, "iggy", TRUE>>} /\ hist = SeedScript
    ELSE S = {} /\ T = {} /\ G = {} /\ Cnt = {} /\ Mem = {} /\ U = {<<1, "iggy", TRUE>>} /\ hist = <<>>

MCCreateStream ==
    /\ "create_stream" \in Ops
    /\ \E id \in SIds : \E n \in SNames :
        /\ IF CanCreateStream(id, n)
           THEN \E rid \in (IF id = 0 THEN FreshIn(StreamIds) ELSE {id}) : CreateStream(rid, n)
           ELSE Refused
        /\ Record([op |-> "create_stream", id |-> id, name |-> n])
MCUpdateStream ==
    /\ "update_stream" \in Ops
    /\ \E r \in SRefs : \E n \in SNames :
        /\ IF CanRenameStream(StreamOf(r), n) THEN RenameStream(StreamOf(r), n) ELSE Refused
        /\ Record([op |-> "update_stream", s |-> r, name |-> n])
MCDeleteStream ==
    /\ "delete_stream" \in Ops
    /\ \E r \in SRefs :
        /\ IF StreamOf(r) # NoId THEN DeleteStream(StreamOf(r)) ELSE Refused
        /\ Record([op |-> "delete_stream", s |-> r])
MCPurgeStream ==
    /\ "purge_stream" \in Ops
    /\ \E r \in SRefs :
        /\ IF StreamOf(r) # NoId THEN PurgeStream(StreamOf(r)) ELSE Refused
        /\ Record([op |-> "purge_stream", s |-> r])

MCCreateTopic ==
    /\ "create_topic" \in Ops
    /\ \E r \in SRefs : \E id \in TIds : \E n \in TNames : \E parts \in {1, 2} :
        /\ IF CanCreateTopic(StreamOf(r), id, n)
           THEN \E rid \in (IF id = 0 THEN FreshIn(TopicIds(StreamOf(r))) ELSE {id}) : CreateTopic(StreamOf(r), rid, n, parts)
           ELSE Refused
        /\ Record([op |-> "create_topic", s |-> r, id |-> id, name |-> n, parts |-> parts])
TopicOp(name, r, t, can, act, extra) ==
    /\ name \in Ops
    /\ IF can THEN act ELSE Refused
    /\ Record([op |-> name, s |-> r, t |-> t] @@ extra)
MCTopicOps ==
    \E r \in SRefs : \E t \in TRefs :
      LET sid == StreamOf(r)
          tid == IF sid = NoId THEN NoId ELSE TopicOf(sid, t) IN
      \/ \E n \in TNames : TopicOp("update_topic", r, t, CanRenameTopic(sid, tid, n), RenameTopic(sid, tid, n), [name |-> n])
      \/ TopicOp("delete_topic", r, t, tid # NoId, DeleteTopic(sid, tid), <<>>)
      \/ TopicOp("purge_topic", r, t, tid # NoId, PurgeTopic(sid, tid), <<>>)
      \/ \E k \in {1, 2} : TopicOp("create_partitions", r, t, tid # NoId, AddPartitions(sid, tid, k), [k |-> k])
      \/ \E k \in {1, 3} : TopicOp("delete_partitions", r, t, tid # NoId, RemovePartitions(sid, tid, k), [k |-> k])
      \/ \E p \in {1, 2} : TopicOp("send", r, t, tid # NoId /\ p \in 1..Parts(sid, tid), SendTo(sid, tid, p, 2), [p |-> p, k |-> 2])
      \/ \E id \in GIds : \E n \in GNames :
            /\ "create_group" \in Ops
            /\ IF CanCreateGroup(sid, tid, id, n)
               THEN \E rid \in (IF id = 0 THEN FreshIn(GroupIds(sid, tid)) ELSE {id}) : CreateGroup(sid, tid, rid, n)
               ELSE Refused
            /\ Record([op |-> "create_group", s |-> r, t |-> t, id |-> id, name |-> n])
      \/ \E g \in GRefs :
           LET gid == IF tid = NoId THEN NoId ELSE GroupOf(sid, tid, g) IN
           \/ TopicOp("delete_group", r, t, gid # NoId, DeleteGroup(sid, tid, gid), [g |-> g])
           \/ \E c \in Clients : TopicOp("join", r, t, gid # NoId, Join(c, sid, tid, gid), [g |-> g, c |-> c])
           \/ \E c \in Clients : TopicOp("leave", r, t, gid # NoId, Leave(c, sid, tid, gid), [g |-> g, c |-> c])
MCDisconnect ==
    /\ "disconnect" \in Ops
    /\ \E c \in Clients : (\E m \in Mem : m[1] = c) /\ Disconnect(c) /\ Record([op |-> "disconnect", c |-> c])
MCExpire ==
    /\ "expire" \in Ops
    /\ \E c \in Clients : (\E m \in Mem : m[1] = c) /\ Expire(c) /\ Record([op |-> "expire", c |-> c])

MCUsers ==
    \/ /\ "create_user" \in Ops
       /\ \E n \in UNames : \E a \in BOOLEAN :
            /\ IF CanCreateUser(n) THEN \E rid \in FreshIn(UserIds) : CreateUser(rid, n, a) ELSE Refused
            /\ Record([op |-> "create_user", name |-> n, active |-> a])
    \/ /\ "update_user" \in Ops
       /\ \E r \in URefs : \E n \in UNames : \E a \in BOOLEAN :
            /\ UserOf(r) # 1
            /\ IF CanUpdateUser(UserOf(r), n) THEN UpdateUser(UserOf(r), n, a) ELSE Refused
            /\ Record([op |-> "update_user", u |-> r, name |-> n, active |-> a])
    \/ /\ "delete_user" \in Ops
       /\ \E r \in URefs :
            /\ IF UserOf(r) # NoId /\ UserOf(r) # 1 THEN DeleteUser(UserOf(r)) ELSE Refused
            /\ Record([op |-> "delete_user", u |-> r])

MCRestart ==
    /\ "restart" \in Ops /\ Len(hist) > 0 /\ hist[Len(hist)].op # "restart"
    /\ Restart /\ Record([op |-> "restart"])

MCNext == MCCreateStream \/ MCUpdateStream \/ MCDeleteStream \/ MCPurgeStream \/ MCCreateTopic \/ MCTopicOps
          \/ MCDisconnect \/ MCExpire \/ MCUsers \/ MCRestart
Bounded == Len(hist) <= MaxOps + (IF Seeded THEN Len(SeedScript) ELSE 0)
MCSpec == MCInit /\ [][MCNext]_mvars
View == vars

(* C06: a refused command changes nothing (built into the actions); any command touches entities of ONE stream only - *)
(* deletes cascade inside it and never disturb a sibling                                                              *)
SymDiff(A, B) == (A \ B) \cup (B \ A)
OneStreamPerStep ==
    [][Cardinality({ x[1] : x \in SymDiff(S, S') } \cup { x[1] : x \in SymDiff(T, T') }
                   \cup { x[1] : x \in SymDiff(G, G') } \cup { x[1] : x \in SymDiff(Cnt, Cnt') }) <= 1]_mvars
EmitScript == Len(hist) = 0 \/ PrintT(<<"SCRIPT", ToJson(hist)>>)
=============================================================================
