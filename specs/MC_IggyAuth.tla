----------------------------- MODULE MC_IggyAuth -----------------------------
(* Bounded instance of IggyAuth: every history over 2 users x 2 passwords x 2 tokens x 2 user connections. *)
EXTENDS IggyAuth, Json
CONSTANTS Names, Pwds, Toks, Conns, MaxNow, MaxOps, Ops,
          Seeded,       \* TRUE: histories start after "ann created (p1, active), logged in on connection 2, holds token 1" (script generation)
          OnlyAllowed   \* TRUE: only operations the specification allows are tried (script generation from the seeded state)
VARIABLES used,  \* ghost: token ids already issued (a token id is issued once)
          hist
mvars == <<vars, used, hist>>
Record(op) == hist' = Append(hist, op)
RootConn == 1

SeedHist == << [op |-> "create_user", c |-> RootConn, name |-> "ann", pwd |-> "p1", active |-> TRUE],
               [op |-> "login", c |-> 2, name |-> "ann", pwd |-> "p1"],
               [op |-> "create_pat", c |-> 2, tok |-> 1, ttl |-> 0] >>
MCInit == /\ now = 0
          /\ IF Seeded
             THEN /\ users = {<<Root, "iggy", TRUE>>, <<"ann", "p1", TRUE>>} /\ toks = {<<1, "ann", 0>>}
                  /\ sess = [c \in Conns \cup {RootConn} |-> IF c = RootConn THEN Root ELSE IF c = 2 THEN "ann" ELSE ""]
                  /\ used = {1} /\ hist = SeedHist
             ELSE /\ users = {<<Root, "iggy", TRUE>>} /\ toks = {}
                  /\ sess = [c \in Conns \cup {RootConn} |-> IF c = RootConn THEN Root ELSE ""]
                  /\ used = {} /\ hist = <<>>

Try(name, can, act, rec) == name \in Ops /\ (OnlyAllowed => can) /\ (IF can THEN act ELSE Refused) /\ UNCHANGED used /\ Record(rec)

MCLogin == \E c \in Conns : \E n \in Names : \E p \in Pwds :
    Try("login", PasswordValid(n, p), Login(c, n, p), [op |-> "login", c |-> c, name |-> n, pwd |-> p])
MCLoginPat == \E c \in Conns : \E t \in used :
    Try("login_pat", TokenValid(t), LoginToken(c, t), [op |-> "login_pat", c |-> c, tok |-> t])
MCLogout == \E c \in Conns :
    Try("logout", Authenticated(c), Logout(c), [op |-> "logout", c |-> c])
MCCreateUser == \E n \in Names : \E p \in Pwds : \E a \in BOOLEAN :
    Try("create_user", CanCreateUser(RootConn, n), CreateUser(n, p, a), [op |-> "create_user", c |-> RootConn, name |-> n, pwd |-> p, active |-> a])
MCChangePassword == \E c \in Conns \cup {RootConn} : \E n \in Names : \E cur \in Pwds : \E new \in Pwds :
    Try("change_password", CanChangePassword(c, n, cur), ChangePassword(n, new),
        [op |-> "change_password", c |-> c, name |-> n, cur |-> cur, new |-> new])
MCSetStatus == \E n \in Names : \E a \in BOOLEAN :
    Try("set_status", CanSetStatus(RootConn, n), SetStatus(n, a), [op |-> "set_status", c |-> RootConn, name |-> n, active |-> a])
MCDeleteUser == \E n \in Names :
    Try("delete_user", CanDeleteUser(RootConn, n), DeleteUser(n), [op |-> "delete_user", c |-> RootConn, name |-> n])
MCCreatePat == /\ "create_pat" \in Ops
               /\ \E c \in Conns : \E t \in Toks \ used : \E ttl \in {0, 1} :
                    /\ (OnlyAllowed => CanCreateToken(c))
                    /\ IF CanCreateToken(c) THEN CreateToken(c, t, ttl) /\ used' = used \cup {t} ELSE Refused /\ UNCHANGED used
                    /\ Record([op |-> "create_pat", c |-> c, tok |-> t, ttl |-> ttl])
MCDeletePat == \E c \in Conns : \E t \in used :
    Try("delete_pat", CanDeleteToken(c, t), DeleteToken(t), [op |-> "delete_pat", c |-> c, tok |-> t])
MCTick == "tick" \in Ops /\ now < MaxNow /\ Tick(1) /\ UNCHANGED used /\ Record([op |-> "tick", by |-> 1])
MCClean == "clean" \in Ops /\ (\E k \in toks : k[3] # 0 /\ now >= k[3]) /\ CleanExpired /\ UNCHANGED used /\ Record([op |-> "clean"])
MCRestart == "restart" \in Ops /\ Len(hist) > 0 /\ hist[Len(hist)].op # "restart" /\ Restart(RootConn) /\ UNCHANGED used /\ Record([op |-> "restart"])

MCNext == MCLogin \/ MCLoginPat \/ MCLogout \/ MCCreateUser \/ MCChangePassword \/ MCSetStatus \/ MCDeleteUser
          \/ MCCreatePat \/ MCDeletePat \/ MCTick \/ MCClean \/ MCRestart
Bounded == Len(hist) <= MaxOps
MCSpec == MCInit /\ [][MCNext]_mvars
View == <<vars, used>>

(* C10: a session only ever belongs to a user that presented a valid credential; after a password change the old one is dead *)
OldPasswordDead == [][\A n \in Names : \A p \in Pwds :
                        (Exists(n) /\ Exists(n)' /\ PwdOf(n) = p /\ PwdOf(n)' # p) => ~PasswordValid(n, p)']_mvars
ExpiredNeverValid == \A k \in toks : (k[3] # 0 /\ now >= k[3]) => ~TokenValid(k[1])
EmitScript == Len(hist) = 0 \/ PrintT(<<"SCRIPT", ToJson(hist)>>)
=============================================================================
