------------------------------- MODULE IggyCrash -------------------------------
(***************************************************************************)
(* Crash consistency of one partition (C04), process-death model.          *)
(* Persisting a batch is two file mutations in this order: the batch is    *)
(* appended to the log file, then its entry to the index file; the         *)
(* partition's end is what the LAST COMPLETE index entry says, and a       *)
(* reader never goes past complete log data.  A crash can fall after any   *)
(* mutation and can tear the last one.  Recovery must expose a prefix of   *)
(* the accepted messages that contains every batch whose persist had       *)
(* completed, and must continue at the next offset.                        *)
(*   accepted   number of batches accepted (all of size 1 here)            *)
(*   logN/idxN  complete batches / entries in the log and the index file   *)
(*   tornLog, tornIdx   a partial trailing record is in the file           *)
(***************************************************************************)
EXTENDS Integers, Sequences, FiniteSets, TLC

CONSTANTS MaxBatches

VARIABLES accepted, persisted, logN, idxN, tornLog, tornIdx, pc, crashed, recovered
vars == <<accepted, persisted, logN, idxN, tornLog, tornIdx, pc, crashed, recovered>>

Init == accepted = 0 /\ persisted = 0 /\ logN = 0 /\ idxN = 0 /\ tornLog = FALSE /\ tornIdx = FALSE
        /\ pc = "idle" /\ crashed = FALSE /\ recovered = -1

Accept == ~crashed /\ pc = "idle" /\ accepted < MaxBatches /\ accepted' = accepted + 1 /\ pc' = "log"
          /\ UNCHANGED <<persisted, logN, idxN, tornLog, tornIdx, crashed, recovered>>
WriteLog == ~crashed /\ pc = "log" /\ logN' = logN + 1 /\ pc' = "idx"
            /\ UNCHANGED <<accepted, persisted, idxN, tornLog, tornIdx, crashed, recovered>>
WriteIdx == ~crashed /\ pc = "idx" /\ idxN' = idxN + 1 /\ persisted' = persisted + 1 /\ pc' = "idle"
            /\ UNCHANGED <<accepted, logN, tornLog, tornIdx, crashed, recovered>>
(* the process dies: possibly in the middle of the mutation it was performing *)
Crash == /\ ~crashed /\ crashed' = TRUE
         /\ \E torn \in BOOLEAN :
              /\ tornLog' = (torn /\ pc = "log")
              /\ tornIdx' = (torn /\ pc = "idx")
         /\ UNCHANGED <<accepted, persisted, logN, idxN, pc, recovered>>
(* recovery: the end of the partition is the last complete index entry whose batch is completely in the log; partial records ignored *)
Recover == /\ crashed /\ recovered = -1
           /\ recovered' = IF idxN <= logN THEN idxN ELSE logN
           /\ UNCHANGED <<accepted, persisted, logN, idxN, tornLog, tornIdx, pc, crashed>>
Next == Accept \/ WriteLog \/ WriteIdx \/ Crash \/ Recover
Spec == Init /\ [][Next]_vars

(* C04: a gap-free prefix of what was accepted, containing everything whose persist had completed *)
RecoverIsPrefix == recovered # -1 => (recovered <= accepted /\ recovered >= persisted)
(* write order: the index never runs ahead of the log *)
IndexBehindLog == idxN <= logN
=============================================================================
