------------------------------- MODULE IggyLog -------------------------------
(***************************************************************************)
(* Property-level specification of the data path of one iggy topic:        *)
(* per-partition append-only logs, retention/purge, polling in all its     *)
(* kinds, consumer offsets.  It states what every observable call must     *)
(* return after ANY finite history; where the statements of C01-C03, C07,  *)
(* C14, C16, C18 leave freedom (when buffers are saved, how segments are   *)
(* cut, which window the cache holds) the freedom is an action parameter.  *)
(*                                                                         *)
(* The module is used three ways (one source of truth):                    *)
(*   MC_IggyLog*.cfg   exhaustive model checking within small constants    *)
(*   Gen_IggyLog*.cfg  generation of input scripts for the real server     *)
(*   Trace_IggyLog.tla validation of traces recorded from the real server  *)
(***************************************************************************)
EXTENDS Integers, Sequences, FiniteSets, TLC

None == -1          \* "no stored offset" / "no cache"
NoGroup == -2       \* stored-offset observation for a consumer group that does not exist

VARIABLES
    log,      \* [partition -> Seq([m, id, ts])]  accepted messages since creation / last purge; log[p][o+1] has offset o
    lo,       \* [partition -> Nat]   earliest offset not removed by retention (first retained offset)
    segs,     \* [partition -> Seq([start, closed])]  segment list (implementation-shaped, only used to judge removals)
    cacheLo,  \* [partition -> Int]   lowest offset held by the in-memory cache, None if no cache / empty
    stored,   \* [partition -> [key -> Int]]  stored consumer offsets (None = nothing stored)
    groups,   \* set of keys that are existing consumer groups
    now,      \* clock in ticks
    expiry,   \* topic message expiry in ticks, 0 = never
    dedup     \* BOOLEAN: server-side de-duplication on

vars == <<log, lo, segs, cacheLo, stored, groups, now, expiry, dedup>>

MinI(a, b) == IF a <= b THEN a ELSE b
MaxI(a, b) == IF a >= b THEN a ELSE b
MinOfSet(S) == CHOOSE x \in S : \A y \in S : x <= y

Parts == DOMAIN log
CurOf(lg) == IF Len(lg) = 0 THEN 0 ELSE Len(lg) - 1

(* messages with offsets a .. b-1 as <<offset, message number>> pairs; empty when b <= a *)
RunOf(lg, a, b) == [i \in 1..(b - a) |-> <<a + i - 1, lg[a + i].m>>]

(***************************************************************************)
(* What a poll by offset may return (C02, C14).  l0 is the earliest        *)
(* available offset.  Exactly one answer, except below l0 where the        *)
(* statements of C02 ("the retained messages in [o,o+n-1]") and C14        *)
(* ("starts from the earliest message still available") can be read two    *)
(* ways; a gap-free run that starts at l0 and ends anywhere between the    *)
(* two readings is accepted (the code cuts at a segment boundary in        *)
(* between), nothing else is.                                              *)
(***************************************************************************)
SlicesLo(lg, l0, o, n) ==
    LET L == Len(lg) IN
    IF L = 0 \/ o > L - 1 THEN { <<>> }
    ELSE IF o >= l0 THEN { RunOf(lg, o, MinI(o + n, L)) }
    ELSE IF o + n <= l0 THEN { RunOf(lg, l0, e) : e \in l0..MinI(l0 + n, L) }             \* wholly below l0: nothing, or up to n from l0
    ELSE { RunOf(lg, l0, e) : e \in MinI(o + n, L)..MinI(l0 + n, L) }                     \* straddles l0: starts at l0, ends between the two readings

FirstN(lg, l0, n) == RunOf(lg, l0, MinI(l0 + n, Len(lg)))
LastN(lg, l0, n)  == RunOf(lg, MaxI(l0, Len(lg) - n), Len(lg))
(* k = first offset whose timestamp is >= t (Len(lg) if none): "the first n whose timestamp is at least t" *)
ByRank(lg, l0, k, n) == RunOf(lg, MaxI(k, l0), MinI(MaxI(k, l0) + n, Len(lg)))

(* The code does not evict the cache on retention and no statement says it must: a message that retention *)
(* removed may still be served while cached.  So "earliest available" is l0 or the cache's low end.        *)
LoSet(l0, cl) == IF cl # None /\ cl < l0 THEN {l0, cl} ELSE {l0}

Slices(lg, los, o, n) == UNION { SlicesLo(lg, x, o, n) : x \in los }

(* 'next' for a consumer whose stored offset is s (C07) *)
NextSet(lg, los, s, n) ==
    IF s = None THEN { FirstN(lg, x, n) : x \in los }
    ELSE IF s >= CurOf(lg) THEN { <<>> }
    ELSE Slices(lg, los, s + 1, n)

(***************************************************************************)
(* De-duplication (C18): an id is stored at most once; the first           *)
(* occurrence is kept; id 0 means "server-assigned" and is always fresh.   *)
(***************************************************************************)
IdsOf(lg) == { lg[i].id : i \in 1..Len(lg) } \ {0}
Fresh(batch, ids, i) ==
    batch[i][2] = 0 \/ (batch[i][2] \notin ids /\ \A j \in 1..(i - 1) : batch[j][2] # batch[i][2])
RECURSIVE KeepFresh(_, _, _)
KeepFresh(batch, ids, i) ==
    IF i > Len(batch) THEN <<>>
    ELSE (IF Fresh(batch, ids, i) THEN <<batch[i]>> ELSE <<>>) \o KeepFresh(batch, ids, i + 1)
Accepted(batch, lg, dd) == IF dd THEN KeepFresh(batch, IdsOf(lg), 1) ELSE batch

(***************************************************************************)
(* Segments and retention (C14).  A segment owns the offsets from its      *)
(* start up to the next segment's start (the last one up to the end of     *)
(* the log).  A segment may be removed only when it is closed and its      *)
(* newest message is older than the expiry; removed segments are a prefix. *)
(***************************************************************************)
SegEnd(sg, i, L) == IF i < Len(sg) THEN sg[i + 1].start - 1 ELSE L - 1
OwnsNothing(sg, i, L) == SegEnd(sg, i, L) < sg[i].start
Expired(lg, sg, i, exp, nw) ==
    /\ sg[i].closed
    /\ exp # 0
    /\ LET e == SegEnd(sg, i, Len(lg)) IN e + 1 <= Len(lg) /\ e >= 0 /\ lg[e + 1].ts + exp <= nw
RemovedIdx(sgOld, sgNew) ==
    { i \in 1..Len(sgOld) : \A j \in 1..Len(sgNew) : sgNew[j].start # sgOld[i].start }
RemovedOK(lg, sgOld, sgNew, exp, nw) ==
    \A i \in RemovedIdx(sgOld, sgNew) : OwnsNothing(sgOld, i, Len(lg)) \/ Expired(lg, sgOld, i, exp, nw)
RemovedIsPrefix(lg, sgOld, sgNew) ==
    LET R == { i \in RemovedIdx(sgOld, sgNew) : ~OwnsNothing(sgOld, i, Len(lg)) } IN
    \A i \in R : \A j \in 1..(i - 1) : j \in RemovedIdx(sgOld, sgNew)
(* earliest retained offset after the removal *)
LoAfter(lg, l0, sgOld, sgNew) ==
    LET R == { i \in RemovedIdx(sgOld, sgNew) : ~OwnsNothing(sgOld, i, Len(lg)) } IN
    IF R = {} THEN l0
    ELSE LET S == { i \in 1..Len(sgOld) : i \notin RemovedIdx(sgOld, sgNew) /\ sgOld[i].start >= l0 } IN
         IF S = {} THEN Len(lg) ELSE MaxI(l0, sgOld[MinOfSet(S)].start)

(***************************************************************************)
(* Actions.  Every step is (one input action) /\ (one layout step); the    *)
(* layout step's parameters sg2 / cl2 are the implementation's freedom     *)
(* (new segment lists, new cache windows) and move `lo` only through the   *)
(* removal of segments.                                                    *)
(***************************************************************************)
LayoutAll(sg2, cl2) ==
    /\ lo' = [p \in Parts |-> LoAfter(log[p], lo[p], segs[p], sg2[p])]
    /\ segs' = sg2
    /\ cacheLo' = cl2
LayoutPurged(sg2, cl2) ==
    /\ lo' = [p \in Parts |-> 0]
    /\ segs' = sg2
    /\ cacheLo' = cl2
LayoutSame == UNCHANGED <<lo, segs, cacheLo>>

(* a send of `batch` (Seq of <<m, id>>) to partition p that the server acknowledged *)
Send(p, batch) ==
    LET acc == Accepted(batch, log[p], dedup) IN
    /\ log' = [log EXCEPT ![p] = log[p] \o [i \in 1..Len(acc) |-> [m |-> acc[i][1], id |-> acc[i][2], ts |-> now]]]
    /\ UNCHANGED <<stored, groups, now, expiry, dedup>>

(* flush / background save / clean restart / maintenance pass / refused request: nothing observable changes *)
Quiet == UNCHANGED <<log, stored, groups, now, expiry, dedup>>

Tick(d) == now' = now + d /\ UNCHANGED <<log, stored, groups, expiry, dedup>>
SetExpiry(e) == expiry' = e /\ UNCHANGED <<log, stored, groups, now, dedup>>

Purge ==
    /\ log' = [p \in Parts |-> <<>>]
    /\ stored' = [p \in Parts |-> [k \in DOMAIN stored[p] |-> None]]
    /\ UNCHANGED <<groups, now, expiry, dedup>>

StoreAllowed(p, o) == o <= CurOf(log[p])
Store(p, k, o) ==
    /\ stored' = [stored EXCEPT ![p][k] = o]
    /\ UNCHANGED <<log, groups, now, expiry, dedup>>
DeleteOffset(p, k) ==
    /\ stored' = [stored EXCEPT ![p][k] = None]
    /\ UNCHANGED <<log, groups, now, expiry, dedup>>
(* a 'next' poll that returned r; with auto-commit the offset of the last returned message is stored *)
PollNext(p, k, r, auto) ==
    /\ stored' = IF auto /\ Len(r) > 0 THEN [stored EXCEPT ![p][k] = r[Len(r)][1]] ELSE stored
    /\ UNCHANGED <<log, groups, now, expiry, dedup>>
DeleteGroup(k) ==
    /\ groups' = groups \ {k}
    /\ stored' = [p \in Parts |-> [stored[p] EXCEPT ![k] = None]]
    /\ UNCHANGED <<log, now, expiry, dedup>>
MakeGroup(k) ==
    /\ groups' = groups \cup {k}
    /\ UNCHANGED <<log, stored, now, expiry, dedup>>

(***************************************************************************)
(* State invariants of the specification itself (checked by MC_IggyLog).   *)
(***************************************************************************)
TypeOK ==
    /\ \A p \in Parts : lo[p] \in 0..Len(log[p])
    /\ \A p \in Parts : \A k \in DOMAIN stored[p] : stored[p][k] = None \/ stored[p][k] \in 0..CurOf(log[p])
    /\ now \in Nat /\ expiry \in Nat

(* C18: with de-duplication on no id is stored twice *)
DedupOnce == dedup => \A p \in Parts : \A i, j \in 1..Len(log[p]) :
                 (i # j /\ log[p][i].id # 0) => log[p][i].id # log[p][j].id

(* C02/C14: every allowed answer is a gap-free run of the log that starts at or after the requested offset, *)
(* holds at most n messages and nothing below the earliest available offset                                  *)
SliceShape(lg, los, o, n) ==
    \A r \in Slices(lg, los, o, n) :
        /\ Len(r) <= n
        /\ \A i \in 1..Len(r) : r[i][1] = r[1][1] + i - 1 /\ r[i][2] = lg[r[i][1] + 1].m
        /\ Len(r) > 0 => (r[1][1] >= o \/ r[1][1] \in los) /\ r[1][1] >= MinOfSet(los)
=============================================================================
