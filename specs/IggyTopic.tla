------------------------------ MODULE IggyTopic ------------------------------
(***************************************************************************)
(* Property-level specification of one topic as a set of partitions:       *)
(* where a send lands (C17), the size-limit gate and oldest-segment        *)
(* clean-up (C15), and the hierarchy of reported counters (C16).           *)
(* A partition is reduced to the sequence of message numbers it accepted,  *)
(* its earliest retained offset and its segment list; the full read        *)
(* semantics of a partition is IggyLog's business.                         *)
(***************************************************************************)
EXTENDS Integers, Sequences, FiniteSets, TLC

VARIABLES
    P,          \* number of partitions (ids 1..P)
    plog,       \* [1..P -> Seq(Nat)]  message numbers accepted by each partition since creation / purge
    plo,        \* [1..P -> Nat]       earliest retained offset
    segs,       \* [1..P -> Seq([start, closed])]
    keyMap,     \* set of <<key, partition count, partition>>: where a messages-key was first seen to land
    balHist,    \* partitions hit by the most recent consecutive balanced sends (reset on partition-count change / restart)
    limit,      \* topic size limit in bytes, 0 = unlimited
    delOldest,  \* BOOLEAN  configuration: delete oldest segments when (almost) full
    segBytes,   \* configured segment size in bytes
    tsize,      \* the topic's reported size (bytes); in traces bound from the sweep, C16 ties it to what is stored
    others      \* [name -> Nat] message counts of the sibling topic / sibling stream (for the sums of C16)

vars == <<P, plog, plo, segs, keyMap, balHist, limit, delOldest, segBytes, tsize, others>>

Retained(p) == Len(plog[p]) - plo[p]
TopicCount == LET s[i \in 0..P] == IF i = 0 THEN 0 ELSE s[i - 1] + Retained(i) IN s[P]
RunOfP(p) == [i \in 1..Retained(p) |-> <<plo[p] + i - 1, plog[p][plo[p] + i]>>]

(* C15: the gate.  A send is refused with "topic full" iff the topic has a limit, is at or above it, and *)
(* deletion of the oldest segments is disabled.                                                          *)
Full == limit # 0 /\ tsize >= limit
MustRefuse == Full /\ ~delOldest
AlmostFull == limit # 0 /\ 10 * tsize >= 9 * limit

(* C17: where a send may land *)
KeyBound(key) == { b \in keyMap : b[1] = key /\ b[2] = P }
MayLand(kind, v, p) ==
    /\ p \in 1..P
    /\ CASE kind = "id" -> p = v
         [] kind = "key" -> \A b \in KeyBound(v) : b[3] = p
         [] kind = "balanced" ->
              (* rotation: any P consecutive balanced sends hit P distinct partitions *)
              \A i \in 1..Len(balHist) : i > Len(balHist) - (P - 1) => balHist[i] # p
InvalidTarget(kind, v) == P = 0 \/ (kind = "id" /\ v \notin 1..P)

(* an acknowledged send of message numbers ms that was seen to land in partition p *)
Send(kind, v, ms, p) ==
    /\ plog' = [plog EXCEPT ![p] = plog[p] \o ms]
    /\ keyMap' = IF kind = "key" THEN keyMap \cup {<<v, P, p>>} ELSE keyMap
    /\ balHist' = IF kind = "balanced"
                  THEN LET h == Append(balHist, p) IN SubSeq(h, (IF Len(h) > P THEN Len(h) - P + 1 ELSE 1), Len(h))   \* the last P are all that matter
                  ELSE balHist
    /\ UNCHANGED <<P, limit, delOldest, segBytes, others>>

Nothing == UNCHANGED <<P, plog, keyMap, balHist, limit, delOldest, segBytes, others>>

AddPartitions(k) ==
    /\ P' = P + k
    /\ plog' = [i \in 1..(P + k) |-> IF i <= P THEN plog[i] ELSE <<>>]
    /\ balHist' = <<>>
    /\ UNCHANGED <<keyMap, limit, delOldest, segBytes, others>>

(* partitions are removed from the high end, with their messages; k is clamped to what exists *)
RemovePartitions(k) ==
    LET n == IF k > P THEN 0 ELSE P - k IN
    /\ P' = n
    /\ plog' = [i \in 1..n |-> plog[i]]
    /\ balHist' = <<>>
    /\ UNCHANGED <<keyMap, limit, delOldest, segBytes, others>>

LimitAllowed(l) == l = 0 \/ l >= segBytes
SetLimit(l) ==
    /\ limit' = l
    /\ UNCHANGED <<P, plog, keyMap, balHist, delOldest, segBytes, others>>

Purge ==
    /\ plog' = [i \in 1..P |-> <<>>]
    /\ UNCHANGED <<P, keyMap, balHist, limit, delOldest, segBytes, others>>

Restart ==
    /\ balHist' = <<>>
    /\ UNCHANGED <<P, plog, keyMap, limit, delOldest, segBytes, others>>

SendOther(w, k) ==
    /\ others' = [others EXCEPT ![w] = @ + k]
    /\ UNCHANGED <<P, plog, keyMap, balHist, limit, delOldest, segBytes>>

(***************************************************************************)
(* Layout step (C15 clean-up): which segments disappeared.  In a           *)
(* maintenance pass on an almost-full topic with deletion enabled the      *)
(* first segment of a partition may go if it is closed - at most that one  *)
(* per partition and pass, never the last (newest) one.  Nothing else      *)
(* removes segments in this lens (no expiry).                              *)
(***************************************************************************)
SegEnd(sg, i, L) == IF i < Len(sg) THEN sg[i + 1].start - 1 ELSE L - 1
RemovedIdx(sgOld, sgNew) == { i \in 1..Len(sgOld) : \A j \in 1..Len(sgNew) : sgNew[j].start # sgOld[i].start }
OldestOK(sgOld, sgNew, inMaintenance) ==
    LET R == RemovedIdx(sgOld, sgNew) IN
    R = {} \/ (/\ inMaintenance /\ delOldest /\ AlmostFull
               /\ R = {1} /\ sgOld[1].closed /\ Len(sgOld) > 1)
LoAfterRemoval(L, l0, sgOld, sgNew) ==
    IF 1 \in RemovedIdx(sgOld, sgNew) /\ Len(sgOld) > 1 THEN (IF sgOld[2].start > l0 THEN sgOld[2].start ELSE l0) ELSE l0

Layout(sg2, purged) ==
    /\ plo' = [i \in 1..P' |-> IF purged \/ i > P THEN 0 ELSE LoAfterRemoval(Len(plog[i]), plo[i], segs[i], sg2[i])]
    /\ segs' = sg2

TypeOK ==
    /\ P \in Nat /\ DOMAIN plog = 1..P /\ DOMAIN plo = 1..P
    /\ \A i \in 1..P : plo[i] \in 0..Len(plog[i])
    /\ \A b \in keyMap : b[3] \in 1..b[2]

(* C17: a key never has two partitions for the same partition count *)
KeyDeterministic == \A a, b \in keyMap : (a[1] = b[1] /\ a[2] = b[2]) => a[3] = b[3]
(* C17: no message is stored twice *)
NoDoubleStore == \A i, j \in 1..P : \A x \in 1..Len(plog[i]) : \A y \in 1..Len(plog[j]) :
                    (i # j \/ x # y) => plog[i][x] # plog[j][y]
=============================================================================
