SPECIFICATION MCSpec
CONSTANTS
    NParts = 1
    KeySet = {"c1"}
    GroupKeys = {}
    DedupOn = FALSE
    IdSet = {0}
    MaxLen = 6
    MaxBatch = 3
    MaxNow = 0
    ExpirySet = {0}
    Threshold = 2
    SegCap = 4
    MaxOps = 6
    Ops = {"append","flush","bg_save","restart","purge"}
VIEW View
CHECK_DEADLOCK FALSE
CONSTRAINT Bounded
INVARIANTS TypeOK DedupOnce AllSlicesShaped SegsCoverLog
PROPERTIES LogGrows LoMoves StoredIsolated
