------------------------------- MODULE IggyAuth -------------------------------
(***************************************************************************)
(* Credential life cycle (C10): which login succeeds after ANY history of  *)
(* user creation, status change, password change, token creation / expiry  *)
(* / deletion, logout and restart.  A login succeeds iff the credential is *)
(* valid NOW; nothing else is remembered.                                  *)
(*   users  <<name, password, active>>                                     *)
(*   toks   <<token, owner, expiresAt>>   expiresAt = 0: never             *)
(*   sess   [connection -> user name or ""]                                *)
(***************************************************************************)
EXTENDS Integers, Sequences, FiniteSets, TLC

VARIABLES users, toks, now, sess
vars == <<users, toks, now, sess>>

Root == "iggy"
(* state-parametric forms (trace specifications evaluate them on the post-state) *)
ExistsS(us, n) == \E u \in us : u[1] = n
UserRecS(us, n) == CHOOSE u \in us : u[1] = n
ActiveS(us, n) == ExistsS(us, n) /\ UserRecS(us, n)[3]
(* the heart of C10 *)
PasswordValidS(us, n, p) == ExistsS(us, n) /\ UserRecS(us, n)[2] = p /\ ActiveS(us, n)
TokenValidS(us, tk, nw, t) == \E k \in tk : k[1] = t /\ (k[3] = 0 \/ nw < k[3]) /\ ActiveS(us, k[2])

Exists(n) == ExistsS(users, n)
UserRec(n) == UserRecS(users, n)
Active(n) == ActiveS(users, n)
PwdOf(n) == UserRec(n)[2]
PasswordValid(n, p) == PasswordValidS(users, n, p)
TokenValid(t) == TokenValidS(users, toks, now, t)

Authenticated(c) == sess[c] # ""

Login(c, n, p) == sess' = [sess EXCEPT ![c] = n] /\ UNCHANGED <<users, toks, now>>
LoginToken(c, t) == sess' = [sess EXCEPT ![c] = (CHOOSE k \in toks : k[1] = t)[2]] /\ UNCHANGED <<users, toks, now>>
Logout(c) == sess' = [sess EXCEPT ![c] = ""] /\ UNCHANGED <<users, toks, now>>

CanCreateUser(c, n) == sess[c] = Root /\ ~Exists(n)
CreateUser(n, p, a) == users' = users \cup {<<n, p, a>>} /\ UNCHANGED <<toks, now, sess>>
(* a change requires the target's current password; changing somebody else's needs the right to manage users (root here) *)
CanChangePassword(c, n, cur) == Authenticated(c) /\ Exists(n) /\ PwdOf(n) = cur /\ (sess[c] = n \/ sess[c] = Root)
ChangePassword(n, new) ==
    /\ users' = { IF u[1] = n THEN <<n, new, u[3]>> ELSE u : u \in users }
    /\ UNCHANGED <<toks, now, sess>>
CanSetStatus(c, n) == sess[c] = Root /\ Exists(n) /\ n # Root
SetStatus(n, a) ==
    /\ users' = { IF u[1] = n THEN <<n, u[2], a>> ELSE u : u \in users }
    /\ UNCHANGED <<toks, now, sess>>
CanDeleteUser(c, n) == sess[c] = Root /\ Exists(n) /\ n # Root
(* a session belongs to the user that logged in, not to the NAME: the connections of a deleted user stay "authenticated as *)
(* somebody who is gone" (every request that needs the user is refused), also when the name is given to a new user later     *)
Gone == "<deleted user>"
DeleteUser(n) ==
    /\ users' = { u \in users : u[1] # n }
    /\ toks' = { k \in toks : k[2] # n }
    /\ sess' = [c \in DOMAIN sess |-> IF sess[c] = n THEN Gone ELSE sess[c]]
    /\ UNCHANGED now

CanCreateToken(c) == Authenticated(c) /\ Exists(sess[c])
CreateToken(c, t, ttl) ==
    /\ toks' = toks \cup {<<t, sess[c], IF ttl = 0 THEN 0 ELSE now + ttl>>}
    /\ UNCHANGED <<users, now, sess>>
CanDeleteToken(c, t) == Authenticated(c) /\ \E k \in toks : k[1] = t /\ k[2] = sess[c]
DeleteToken(t) == toks' = { k \in toks : k[1] # t } /\ UNCHANGED <<users, now, sess>>

Tick(d) == now' = now + d /\ UNCHANGED <<users, toks, sess>>
(* the cleaner / the replay drop expired tokens: no login outcome changes *)
CleanExpired == toks' = { k \in toks : k[3] = 0 \/ now < k[3] } /\ UNCHANGED <<users, now, sess>>
Restart(rootConn) ==
    /\ sess' = [c \in DOMAIN sess |-> IF c = rootConn THEN Root ELSE ""]
    /\ UNCHANGED <<users, toks, now>>
Refused == UNCHANGED vars

TypeOK ==
    /\ \A a, b \in users : a[1] = b[1] => a = b
    /\ \A k \in toks : Exists(k[2])
    /\ Exists(Root) /\ Active(Root)
=============================================================================
