----------------------------- MODULE MC_IggyPerm -----------------------------
(* The hierarchy is a pure function of the record: its properties are checked as assumptions over all 2^20 records. *)
EXTENDS IggyPerm
VARIABLE x
Init == x = 0
Next == UNCHANGED x
Spec == Init /\ [][Next]_x
(* Monotone over all pairs is 2^40: it is checked flag-wise (adding ONE flag never revokes), which is equivalent.  *)
(* Rules that look at global flags only are checked over all 2^10 global sets; the others over {no, each single, all} of the  *)
(* six global flags they can depend on x all stream flag sets x all topic flag sets.                               *)
GOnly == {"get_stats", "get_user", "create_user", "get_streams", "create_stream"}
Scoped == {"get_stream", "update_stream", "get_topics", "create_topic", "get_topic", "update_topic", "poll_messages", "append_messages"}
G6 == {"manage_streams", "read_streams", "manage_topics", "read_topics", "poll_messages", "send_messages"}
MonotoneStep ==
    /\ \A r \in GOnly : \A g \in SUBSET GFlags : Granted(r, g, {}, {}) => \A f \in GFlags : Granted(r, g \cup {f}, {}, {})
    /\ \A r \in Scoped : \A g \in ({{}, G6} \cup {{f} : f \in G6}) : \A s \in SUBSET SFlags : \A t \in SUBSET TFlags :
        Granted(r, g, s, t) =>
            /\ \A f \in G6 : Granted(r, g \cup {f}, s, t)
            /\ \A f \in SFlags : Granted(r, g, s \cup {f}, t)
            /\ \A f \in TFlags : Granted(r, g, s, t \cup {f})
Inv == MonotoneStep /\ RootAll /\ NothingFromNothing
=============================================================================
