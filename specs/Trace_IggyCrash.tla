--------------------------- MODULE Trace_IggyCrash ---------------------------
(* Validation of recovered crash images (harness/src/crash_lens.rs) against the recovery postcondition of IggyCrash. *)
EXTENDS Integers, Sequences, FiniteSets, TLC, Json, IOUtils
Rec == ndJsonDeserialize(IOEnv.TRACE)
VARIABLES l, wait, bad
tvars == <<l, wait, bad>>
SetOf(seq) == { seq[i] : i \in 1..Len(seq) }
Ms(r) == [i \in 1..Len(r) |-> r[i][2]]
Dense(r) == \A i \in 1..Len(r) : r[i][1] = i - 1
IsPrefix(a, b) == Len(a) <= Len(b) /\ \A i \in 1..Len(a) : a[i] = b[i]

CrashLabels(e) ==
    IF e.start # "ok"
    THEN (* a torn trailing STATE entry may be reported by refusing to start (C11 demands that a cut tail is an error); *)
         (* nothing else may keep the server from starting, and nothing may make it panic                               *)
         IF e.start = "failed" /\ e.file = "/state/log" /\ e.torn # -1 THEN {} ELSE {<<"C04.start_" \o e.start, e.at, e.file, e.torn>>}
    ELSE IF "read_error" \in DOMAIN e THEN {<<"C04.partition_unreadable", e.at, e.file, e.torn, e.read_error>>}
    ELSE IF ~e.topic THEN (IF Len(e.acked) > 0 THEN {<<"C04.topic_lost", e.at, e.file>>} ELSE {})
    ELSE IF e.partitions = 0 THEN {<<"C04.partitions_lost", e.at, e.file, e.torn>>}
    ELSE (IF ~Dense(e.read) THEN {<<"C04.not_dense", e.at, e.file, e.torn>>} ELSE {})
         \cup (IF ~IsPrefix(Ms(e.read), e.sent) THEN {<<"C04.not_a_prefix", e.at, e.file, e.torn, Ms(e.read)>>} ELSE {})
         \cup (IF wait /\ Len(e.read) < Len(e.acked) THEN {<<"C04.completed_write_lost", e.at, e.file, e.torn, Len(e.read), Len(e.acked)>>} ELSE {})
         \* the image left by a GRACEFUL shutdown holds everything that was accepted, whatever the confirmation mode (C03)
         \cup (IF e.at = "graceful" /\ Len(e.read) < Len(e.sent) THEN {<<"C03.graceful_shutdown_lost", Len(e.read), Len(e.sent)>>} ELSE {})
         \cup (IF e.stored \notin (SetOf(e.offsets) \cup {-1}) THEN {<<"C04.offset_garbage", e.stored>>} ELSE {})
         \cup (IF ~e.append_ok THEN {<<"C04.append_refused_after_recovery", e.at, e.file, e.torn>>} ELSE {})
         \cup (IF e.append_ok /\ (Len(e.read_after) # Len(e.read) + 1 \/ ~Dense(e.read_after) \/ ~IsPrefix(Ms(e.read), Ms(e.read_after))
                                  \/ (Len(e.read_after) > 0 /\ e.read_after[Len(e.read_after)][2] # 900001))
               THEN {<<"C04.offset_reused_or_gap", e.at, e.file, e.torn, e.read_after>>} ELSE {})
         \* a graceful restart of the recovered server serves exactly what it served before (a misaligned repair shows only then)
         \cup (IF "again" \in DOMAIN e /\ (e.again # "ok" \/ e.read_again # e.read_after)
               THEN {<<"C04.lost_at_second_restart", e.at, e.file, e.torn, e.again>>} ELSE {})

TraceInit == l = 1 /\ wait = TRUE /\ bad = {}
TraceNext ==
    /\ l <= Len(Rec) /\ l' = l + 1
    /\ LET e == Rec[l] IN
       /\ wait' = IF e.ev = "reset" THEN e.wait ELSE wait
       /\ bad' = IF e.ev = "crash" THEN CrashLabels(e) ELSE {}
TraceSpec == TraceInit /\ [][TraceNext]_tvars
NoBad == bad = {} \/ PrintT("BAD " \o ToJson([line |-> l - 1, sc |-> Rec[l - 1].sc, i |-> Rec[l - 1].i,
                                                    ev |-> Rec[l - 1].ev, labels |-> bad]))
TraceAccepted ==
    IF TLCGet("stats").diameter - 1 = Len(Rec) THEN PrintT(<<"CONSUMED", Len(Rec)>>)
    ELSE Print(<<"STUCK at line", TLCGet("stats").diameter>>, FALSE)
=============================================================================
