SPECIFICATION MCSpec
CONSTANTS
    NParts = 1
    KeySet = {"c1"}
    GroupKeys = {}
    DedupOn = TRUE
    IdSet = {0,1,2}
    MaxLen = 4
    MaxBatch = 3
    MaxNow = 0
    ExpirySet = {0}
    Threshold = 2
    SegCap = 4
    MaxOps = 4
    Ops = {"append","flush","restart"}
CHECK_DEADLOCK FALSE
CONSTRAINT Bounded
INVARIANT EmitScript
