------------------------------- MODULE IggyWire -------------------------------
(***************************************************************************)
(* Connection level (C13).  The specification is thin by design: every     *)
(* other lens already runs through SDK-encode -> server-decode -> execute  *)
(* -> server-encode -> SDK-decode over TCP (and HTTP), and its answers are *)
(* judged against the owning module.  What is stated here is              *)
(*  - Decode(Encode(r)) = r for every request r the SDK can build, and     *)
(*    client and server agree on whether r is valid;                       *)
(*  - a frame that is not a valid request changes nothing but its own      *)
(*    connection: it is answered with an error, or the connection is       *)
(*    closed (an incomplete frame is simply waited for).                   *)
(***************************************************************************)
EXTENDS Integers, Sequences, FiniteSets, TLC

VARIABLES conns,   \* [connection -> "open" | "closed"]
          cat      \* the rest of the system (catalogue, logs): opaque here
vars == <<conns, cat>>

Outcomes == {"error_response", "closed", "no_answer", "ok_response"}
(* what a garbage frame may lead to *)
GarbageOK(isValid, incomplete, outcome) ==
    \/ isValid                                     \* by accident a well-formed request: handled as such
    \/ outcome \in {"error_response", "closed"}
    \/ (incomplete /\ outcome = "no_answer")       \* the server is still waiting for the rest of the frame

Garbage(c, outcome) ==
    /\ conns[c] = "open"
    /\ conns' = [conns EXCEPT ![c] = IF outcome = "closed" THEN "closed" ELSE "open"]
    /\ UNCHANGED cat                               \* catalogue, logs and every other connection untouched
Request(c) == conns[c] = "open" /\ UNCHANGED conns /\ cat' \in {cat, cat + 1}
Init == conns = [c \in {1, 2} |-> "open"] /\ cat = 0
Next == \E c \in {1, 2} : (\E o \in Outcomes : Garbage(c, o)) \/ (cat < 2 /\ Request(c))
Spec == Init /\ [][Next]_vars
(* a garbage frame on one connection never closes another one *)
Isolation == [][\A c \in {1, 2} : (conns[c] = "open" /\ conns'[c] = "closed") => \A d \in {1, 2} \ {c} : conns'[d] = conns[d]]_vars
=============================================================================
