------------------------------- MODULE IggySdkProps ------------------------------
(***************************************************************************)
(* The SDK's high-level producer and consumer (C20).                       *)
(*                                                                         *)
(* Part 1 - the predicates of the property, over the abstract state that   *)
(* both the bounded model (MC_IggySdk) and the trace specification         *)
(* (Trace_IggySdk) maintain for ONE consumer identity:                     *)
(*   committed[p]  offset stored on the server (-1: none)                  *)
(*   ylast[p]      last offset yielded by the CURRENT incarnation (-1)     *)
(*   ystart[p]     offset its first yield of p must have: right after the  *)
(*                 offset committed when it first fetched p (-1: not yet)  *)
(*   everY[p], everF[p]  highest offset ever yielded / fetched             *)
(* Part 2 (module IggySdk) - a reference algorithm of the consumer.        *)
(***************************************************************************)
EXTENDS Integers, Sequences, FiniteSets, TLC

MaxOf(a, b) == IF a >= b THEN a ELSE b
MinOf(a, b) == IF a <= b THEN a ELSE b
PollingModes == {"polling", "interval_or_polling"}
IntervalModes == {"interval", "interval_or_polling", "interval_or_each", "interval_or_all", "interval_or_nth",
                  "interval_or_after_each", "interval_or_after_all", "interval_or_after_nth"}

(* ---- Part 1: the property ---- *)
(* a yield of (p, o): in offset order, nothing skipped, nothing twice *)
YieldInOrder(ylast, ystart, p, o) == o = (IF ylast[p] = -1 THEN ystart[p] ELSE ylast[p] + 1)
(* an explicit commit never exceeds what has been yielded *)
StoreAllowed(everY, p, o) == o <= everY[p]
(* the commit-on-fetch flag of a poll is used only in the modes that commit when polling *)
PollFlagAllowed(mode, flag) == flag = (mode \in PollingModes)
CommitLeFetched(committed, everF, parts) == \A p \in parts : committed[p] <= everF[p]
CommitLeYielded(committed, everY, parts) == \A p \in parts : committed[p] <= everY[p]
(* the offset an idle consumer must have reached in p *)
NextExpected(ylast, startIfNone, p) == IF ylast[p] # -1 THEN ylast[p] + 1 ELSE startIfNone

=============================================================================
