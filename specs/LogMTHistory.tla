---------------------------- MODULE LogMTHistory ----------------------------
(***************************************************************************)
(* History-level statement of C12.  A history is                           *)
(*   F      the final content of the partition: sequence of <<offset, m>>  *)
(*   sends  sequence of [who, b, t0, t1, ms, res]  (ms = message numbers)  *)
(*   polls  sequence of [who, t0, t1, o, n, r, res] (r = <<offset, m>>...) *)
(* t0 / t1 are global sequence numbers taken before the request was issued *)
(* and after its response arrived; only "a.t1 < b.t0 => a before b" is     *)
(* used.  These predicates are consequences of the operational model       *)
(* IggyLogMT (checked there by TLC) and are what recorded histories of the *)
(* real server are validated against.                                      *)
(***************************************************************************)
EXTENDS Integers, Sequences, FiniteSets, TLC

Pos(F, m) == IF \E i \in 1..Len(F) : F[i][2] = m THEN CHOOSE i \in 1..Len(F) : F[i][2] = m ELSE 0
InF(F, S) == \E j \in 1..Len(S.ms) : Pos(F, S.ms[j]) # 0
EndOf(F, S) == Pos(F, S.ms[Len(S.ms)])          \* position (1-based) of the batch's last message = number of messages up to it

Dense(F) == \A i \in 1..Len(F) : F[i][1] = i - 1
NoDuplicate(F) == \A i, j \in 1..Len(F) : i # j => F[i][2] # F[j][2]
NoForeign(F, sends) == \A i \in 1..Len(F) : \E s \in 1..Len(sends) : \E j \in 1..Len(sends[s].ms) : sends[s].ms[j] = F[i][2]
AckedPresent(F, sends) == \A s \in 1..Len(sends) : sends[s].res = "ok" => \A j \in 1..Len(sends[s].ms) : Pos(F, sends[s].ms[j]) # 0
(* every batch that made it is whole, contiguous and in the order its messages were given *)
BatchesWhole(F, sends) ==
    \A s \in 1..Len(sends) : InF(F, sends[s]) =>
        LET a == Pos(F, sends[s].ms[1]) IN
        a # 0 /\ \A j \in 1..Len(sends[s].ms) : Pos(F, sends[s].ms[j]) = a + j - 1
ProducerOrder(F, sends) ==
    \A s1, s2 \in 1..Len(sends) :
        (sends[s1].who = sends[s2].who /\ sends[s1].b < sends[s2].b /\ InF(F, sends[s1]) /\ InF(F, sends[s2]))
            => Pos(F, sends[s1].ms[1]) < Pos(F, sends[s2].ms[1])
(* batch boundaries of F: 0, and the count after the last message of every batch *)
Boundary(F, sends, k) == k = 0 \/ \E s \in 1..Len(sends) : InF(F, sends[s]) /\ EndOf(F, sends[s]) = k

(* a poll returns a gap-free run of F that starts at the requested offset, at most n messages *)
PollIsRun(F, P) ==
    /\ Len(P.r) <= P.n
    /\ \A j \in 1..Len(P.r) : P.r[j][1] = P.o + j - 1 /\ P.o + j <= Len(F) /\ F[P.o + j] = P.r[j]
(* ... never a torn batch: it stops at n or at a batch boundary *)
PollNotTorn(F, sends, P) == Len(P.r) = 0 \/ Len(P.r) = P.n \/ Boundary(F, sends, P.o + Len(P.r))
(* ... never a message whose send had not even started when the poll returned *)
PollNotFromFuture(F, sends, P) ==
    \A j \in 1..Len(P.r) : \E s \in 1..Len(sends) : sends[s].t0 < P.t1 /\ \E i \in 1..Len(sends[s].ms) : sends[s].ms[i] = P.r[j][2]
(* once a send has been acknowledged (wait-confirmation) every later poll of that range includes it *)
Frontier(F, sends, P) ==
    LET A == { EndOf(F, sends[s]) : s \in { x \in 1..Len(sends) : sends[x].res = "ok" /\ sends[x].t1 < P.t0 /\ InF(F, sends[x]) } }
    IN IF A = {} THEN 0 ELSE CHOOSE x \in A : \A y \in A : y <= x
SeesAcked(F, sends, P) ==
    LET fr == Frontier(F, sends, P) IN
    P.o < fr => Len(P.r) >= (IF P.n <= fr - P.o THEN P.n ELSE fr - P.o)
=============================================================================
