----------------------------- MODULE MC_IggySdk -----------------------------
(* Bounded instance of the consumer reference algorithm of IggySdk, for every setting at once (batch size, commit mode, single / *)
(* group are chosen by Init), and generator of the scripts the harness runs against the real IggyProducer / IggyConsumer.       *)
EXTENDS IggySdk, Json
CONSTANTS MaxOps
VARIABLES hist
mvars == <<avars, hist>>
Rec(op) == hist' = Append(hist, op)
MCInit == AInit /\ hist = <<>>
MCNext == \/ \E p \in Parts : Produce(p) /\ Rec([op |-> "send", p |-> p])
          \/ Fetch /\ UNCHANGED hist
          \/ Yield /\ Rec([op |-> "next"])
          \/ Deliver /\ UNCHANGED hist
          \/ IntervalTick /\ UNCHANGED hist
          \/ ZombieTick /\ UNCHANGED hist
          \/ Drop /\ Rec([op |-> "recreate"])
          \/ Recreate /\ UNCHANGED hist
MCSpec == MCInit /\ [][MCNext]_mvars
Bounded == Len(hist) <= MaxOps
View == avars
EmitScript == Len(hist) = 0 \/ PrintT(<<"SCRIPT", ToJson(hist)>>)
=============================================================================
