------------------------------- MODULE IggyPerm -------------------------------
(***************************************************************************)
(* The documented permission hierarchy (C09), read GENEROUSLY: a manage_*  *)
(* or read_* flag implies everything the doc comments of                   *)
(* sdk/src/models/permissions.rs list beneath it in its scope.  The        *)
(* property says "performed ONLY IF granted", so the largest reading is    *)
(* the oracle: an implementation may grant less, never more.               *)
(* A permission record as seen from the target (stream s, topic t):        *)
(*   g  set of global flags                                                *)
(*   s  set of flags of the record for stream s ({} if there is none)      *)
(*   t  set of flags of the record for topic t inside it ({} if none)      *)
(* Nothing in a record for another stream or topic appears here: that is   *)
(* the scoping rule.                                                       *)
(***************************************************************************)
EXTENDS Integers, Sequences, FiniteSets, TLC

GFlags == {"manage_servers", "read_servers", "manage_users", "read_users", "manage_streams", "read_streams",
           "manage_topics", "read_topics", "poll_messages", "send_messages"}
SFlags == {"manage_stream", "read_stream", "manage_topics", "read_topics", "poll_messages", "send_messages"}
TFlags == {"manage_topic", "read_topic", "poll_messages", "send_messages"}

HasAny(set, flags) == set \cap flags # {}

ServerInfo(g) == HasAny(g, {"manage_servers", "read_servers"})
ReadUsers(g) == HasAny(g, {"manage_users", "read_users"})
ManageUsers(g) == "manage_users" \in g
GetStreams(g) == HasAny(g, {"manage_streams", "read_streams"})
CreateStream(g) == "manage_streams" \in g
GetStream(g, s) == GetStreams(g) \/ HasAny(s, {"manage_stream", "read_stream"})
ManageStream(g, s) == "manage_streams" \in g \/ "manage_stream" \in s
GetTopics(g, s) == \/ HasAny(g, {"manage_streams", "read_streams", "manage_topics", "read_topics"})
                   \/ HasAny(s, {"manage_stream", "read_stream", "manage_topics", "read_topics"})
GetTopic(g, s, t) == GetTopics(g, s) \/ HasAny(t, {"manage_topic", "read_topic"})
CreateTopic(g, s) == HasAny(g, {"manage_streams", "manage_topics"}) \/ HasAny(s, {"manage_stream", "manage_topics"})
ManageTopic(g, s, t) == CreateTopic(g, s) \/ "manage_topic" \in t
Poll(g, s, t) == GetTopic(g, s, t) \/ "poll_messages" \in g \/ "poll_messages" \in s \/ "poll_messages" \in t
Send(g, s, t) == \/ "send_messages" \in g \/ "send_messages" \in s \/ "send_messages" \in t
                 \/ ManageTopic(g, s, t)

(* rule name -> decision; rules of the Permissioner and, with the same names, the operations of the API *)
Granted(rule, g, s, t) ==
    CASE rule \in {"get_stats", "get_clients", "get_client", "snapshot"} -> ServerInfo(g)   \* (snapshot: an operation of the API, not a Permissioner rule)
      [] rule \in {"get_user", "get_users"} -> ReadUsers(g)
      [] rule \in {"create_user", "delete_user", "update_user", "update_permissions", "change_password"} -> ManageUsers(g)
      [] rule = "get_streams" -> GetStreams(g)
      [] rule = "create_stream" -> CreateStream(g)
      [] rule = "get_stream" -> GetStream(g, s)
      [] rule \in {"update_stream", "delete_stream", "purge_stream"} -> ManageStream(g, s)
      [] rule = "get_topics" -> GetTopics(g, s)
      [] rule = "create_topic" -> CreateTopic(g, s)
      [] rule \in {"get_topic", "get_consumer_group", "get_consumer_groups", "create_consumer_group", "delete_consumer_group",
                   "join_consumer_group", "leave_consumer_group"} -> GetTopic(g, s, t)
      [] rule \in {"update_topic", "delete_topic", "purge_topic", "create_partitions", "delete_partitions"} -> ManageTopic(g, s, t)
      [] rule \in {"poll_messages", "get_consumer_offset", "store_consumer_offset", "delete_consumer_offset"} -> Poll(g, s, t)
      [] rule \in {"append_messages", "flush_unsaved_buffer"} -> Send(g, s, t)
      [] rule \in {"ping", "get_me", "get_personal_access_tokens"} -> TRUE          \* authentication only
      [] OTHER -> FALSE

Rules == {"get_stats", "get_clients", "get_client", "get_user", "get_users", "create_user", "delete_user", "update_user",
          "update_permissions", "change_password", "get_streams", "create_stream", "get_stream", "update_stream", "delete_stream",
          "purge_stream", "get_topics", "create_topic", "get_topic", "update_topic", "delete_topic", "purge_topic",
          "create_partitions", "delete_partitions", "get_consumer_group", "get_consumer_groups", "create_consumer_group",
          "delete_consumer_group", "join_consumer_group", "leave_consumer_group", "get_consumer_offset", "store_consumer_offset",
          "delete_consumer_offset", "poll_messages", "append_messages"}

(* properties of the hierarchy itself, model-checked in MC_IggyPerm (Monotone is stated there flag-wise: TLC evaluates *)
(* parameterless constant definitions eagerly, and the pairwise form ranges over 2^40 pairs)                         *)
RootAll == \A r \in Rules : Granted(r, GFlags, {}, {})
NothingFromNothing == \A r \in Rules : ~Granted(r, {}, {}, {})
=============================================================================
