---------------------------- MODULE Trace_IggySdk ----------------------------
(* Validation of the SDK lens (harness/src/sdk_lens.rs): the wire requests of the REAL IggyProducer / IggyConsumer (recorded   *)
(* by the client they talk through), the messages the consumer yields, and the ground truth read by an administrator after    *)
(* every step (every partition of every fixture topic; the stored offsets of the consumer identity).  The predicates are those  *)
(* of IggySdkProps.  Monitor style: a line never blocks; what it breaks is collected in `bad`.                                 *)
EXTENDS IggySdkProps, Json, IOUtils, SequencesExt

Rec == ndJsonDeserialize(IOEnv.TRACE)
VARIABLES l, dead, bad,
          P, pcfg, ccfg,            \* number of partitions, producer / consumer settings (from the reset line)
          logs,                     \* ground truth of the last observation: key "s/t/p" -> sequence of message numbers
          call, rem, chunks,        \* producer call in progress: its begin line, the messages not yet sent, the chunks sent
          tcommitted, tlive, tylast, tystart, teverY, teverF, keymap
          \* tlive: incarnation number of the live consumer object (0: none)
tvars == <<l, dead, bad, P, pcfg, ccfg, logs, call, rem, chunks, tcommitted, tlive, tylast, tystart, teverY, teverF, keymap>>

Key(s, t, p) == ToString(s) \o "/" \o ToString(t) \o "/" \o ToString(p)
NoneP(n) == [p \in 1..n |-> -1]
Single == ccfg.kind # "group"
CPart == IF ccfg.partition = 0 THEN 1 ELSE ccfg.partition
MyP == IF Single THEN {CPart} ELSE 1..P
StrategyKind == IF SubSeq(ccfg.strategy, 1, MinOf(7, Len(ccfg.strategy))) = "offset:" THEN "offset" ELSE ccfg.strategy
RECURSIVE ToNat(_)
ToNat(s) == IF s = "" THEN 0 ELSE 10 * ToNat(SubSeq(s, 1, Len(s) - 1))
               + (CHOOSE d \in 0..9 : ToString(d) = SubSeq(s, Len(s), Len(s)))
StrategyOffset == ToNat(SubSeq(ccfg.strategy, 8, Len(ccfg.strategy)))
Gapless == StrategyKind \in {"next", "offset"}
SeqMax(s) == s[Len(s)]
RangeOf(s) == { s[i] : i \in 1..Len(s) }
StoredOf(obs) == [p \in 1..P |-> obs.stored[p]]
Known(obs) == [p \in 1..P |-> IF tcommitted[p] = -2 THEN obs.stored[p] ELSE tcommitted[p]]   \* (-2: see wire_store_lost)

(* ---- producer ---- *)
Addressed == IF call.call = "send_to" THEN <<call.to[1], call.to[2]>> ELSE <<1, 1>>
ExpectedPart == IF call.call \in {"send_with_partitioning", "send_to"} /\ call.part # "" THEN call.part
                ELSE IF pcfg.part \notin {"", "none"} THEN pcfg.part ELSE "balanced"
WirePart(e) == IF e.pkind = "partition_id" THEN "pid:" \o ToString(e.ppart)
               ELSE IF e.pkind = "messages_key" THEN "key:" \o e.pkey ELSE "balanced"
WireSendLabels(e) ==
    IF call = <<>> THEN {<<"C20.send_outside_call">>}
    ELSE (IF e.stream # ToString(Addressed[1]) \/ e.topic # ToString(Addressed[2])
          THEN {<<"C20.wrong_destination", call.call, Addressed, e.stream, e.topic>>} ELSE {})
         \cup (IF WirePart(e) # ExpectedPart THEN {<<"C20.wrong_partitioning", call.call, ExpectedPart, WirePart(e)>>} ELSE {})
         \cup (IF Len(e.ms) = 0 \/ Len(e.ms) > Len(rem) \/ e.ms # SubSeq(rem, 1, MinOf(Len(e.ms), Len(rem)))
               THEN {<<"C20.chunk_order", e.ms, rem>>} ELSE {})
         \cup (IF pcfg.batch > 0 /\ Len(e.ms) > pcfg.batch THEN {<<"C20.chunk_too_big", Len(e.ms), pcfg.batch>>} ELSE {})
Added(obs, k) == IF IsPrefix(logs[k], obs.logs[k]) THEN SubSeq(obs.logs[k], Len(logs[k]) + 1, Len(obs.logs[k])) ELSE <<>>
Keys == DOMAIN logs
AKey(p) == Key(Addressed[1], Addressed[2], p)
Landing(obs, c) == { p \in 1..P : c[1] \in RangeOf(Added(obs, AKey(p))) }
ExpectedAdd(obs, p) == FoldSeq(LAMBDA c, acc : IF Landing(obs, c) = {p} THEN acc \o c ELSE acc, <<>>, chunks)
PartOfChunkOk(obs, c) == LET lp == Landing(obs, c) IN
    /\ Cardinality(lp) = 1
    /\ (SubSeq(ExpectedPart, 1, 4) = "pid:" => lp = {ToNat(SubSeq(ExpectedPart, 5, Len(ExpectedPart)))})
    /\ (SubSeq(ExpectedPart, 1, 4) = "key:" => \A km \in keymap : km[1] = <<Addressed, ExpectedPart>> => lp = {km[2]})
CallEndLabels(e) ==
    LET obs == e.obs IN
    (IF e.res = "ok" /\ rem # <<>> THEN {<<"C20.not_all_sent", rem>>} ELSE {})
    \cup { <<"C20.log_rewritten", k>> : k \in { k \in Keys : ~IsPrefix(logs[k], obs.logs[k]) } }
    \cup { <<"C20.stored_elsewhere", k, Added(obs, k)>> :
             k \in { k \in Keys : Added(obs, k) # <<>> /\ \A p \in 1..P : k # AKey(p) } }
    \cup { <<"C20.chunk_misplaced", chunks[i]>> : i \in { i \in 1..Len(chunks) : ~PartOfChunkOk(obs, chunks[i]) } }
    \cup { <<"C20.partition_content", p, Added(obs, AKey(p)), ExpectedAdd(obs, p)>> :
             p \in { p \in 1..P : AKey(p) \in Keys /\ Added(obs, AKey(p)) # ExpectedAdd(obs, p) } }
    \cup (IF StoredOf(obs) # Known(obs) THEN {<<"C20.commit_view", StoredOf(obs), tcommitted>>} ELSE {})

(* ---- consumer ---- *)
ExpectedPollValue(p) == IF StrategyKind = "offset" THEN (IF tylast[p] = -1 THEN StrategyOffset ELSE tylast[p] + 1) ELSE 0
WirePollLabels(e) ==
    (IF e.stream # "1" \/ e.topic # "1" \/ e.count # ccfg.batch \/ e.kind # StrategyKind
        \/ e.partition # (IF Single THEN CPart ELSE 0) \/ e.group # ~Single
        \/ (Single /\ StrategyKind = "offset" /\ e.value # ExpectedPollValue(CPart))
     THEN {<<"C20.poll_args", e.partition, e.kind, e.value, e.count>>} ELSE {})
    \cup (IF ~PollFlagAllowed(ccfg.mode, e.auto_commit) THEN {<<"C20.commit_on_fetch_in_wrong_mode", ccfg.mode>>} ELSE {})
    \cup (IF e.res # "ok" THEN {<<"C20.poll_failed", e.res>>} ELSE {})
YieldLabels(e) ==
    LET p == e.p  k == Key(1, 1, e.p) IN
    IF p \notin 1..P THEN {<<"C20.yield_partition", p>>} ELSE
    (IF ~(e.o + 1 <= Len(logs[k]) /\ logs[k][e.o + 1] = e.m) THEN {<<"C20.yield_payload", p, e.o, e.m>>} ELSE {})
    \cup (IF p \notin MyP THEN {<<"C20.yield_partition", p>>} ELSE {})
    \cup (IF Gapless /\ ~YieldInOrder(tylast, tystart, p, e.o)
          THEN {<<"C20.yield_order", p, e.o, IF tylast[p] = -1 THEN tystart[p] ELSE tylast[p] + 1>>} ELSE {})
    \cup (IF ~Gapless /\ e.o <= tylast[p] THEN {<<"C20.yield_twice", p, e.o>>} ELSE {})
    \cup (IF e.o > teverF[p] THEN {<<"C20.yield_unfetched", p, e.o>>} ELSE {})
WireStoreLabels(e) ==
    IF e.partition \notin 1..P THEN {<<"C20.store_partition", e.partition>>} ELSE
    (IF ~StoreAllowed(teverY, e.partition, e.offset) THEN {<<"C20.commit_beyond_yielded", e.partition, e.offset, teverY[e.partition]>>} ELSE {})
    \cup (IF e.stream # "1" \/ e.topic # "1" \/ e.group # ~Single THEN {<<"C20.store_args">>} ELSE {})
    \* a consumer object that was dropped (and whose queued commits have landed: the harness waited) commits nothing more - a
    \* commit of its stale position would move the identity's offset under its successor (re-reading acknowledged work)
    \cup (IF e.inc # tlive THEN {<<"C20.commit_by_dropped_consumer", e.inc, tlive, e.partition, e.offset>>} ELSE {})
StartIfNone(p) == IF StrategyKind = "next" THEN tcommitted[p] + 1 ELSE StrategyOffset
ConsumeEndLabels(e) ==
    (IF e.error # "" THEN {<<"C20.consumer_error", e.error>>} ELSE {})
    \* (consume_messages() may hand over a message more before it notices the shutdown signal: its select is not biased)
    \cup (IF ~e.idle /\ e.error = "" /\ (IF "ext" \in DOMAIN e THEN e.yielded < e.n ELSE e.yielded # e.n)
          THEN {<<"X.harness_count", e.yielded, e.n>>} ELSE {})
    \cup (IF e.idle /\ Gapless
          THEN { <<"C20.stalled", p, NextExpected(tylast, StartIfNone(p), p), Len(e.obs.logs[Key(1, 1, p)])>> :
                   p \in { p \in MyP : NextExpected(tylast, StartIfNone(p), p) < Len(e.obs.logs[Key(1, 1, p)]) } }
          ELSE {})
    \cup (IF StoredOf(e.obs) # Known(e.obs) THEN {<<"C20.commit_view", StoredOf(e.obs), tcommitted>>} ELSE {})
    \cup (IF ~CommitLeFetched(tcommitted, teverF, 1..P) THEN {<<"C20.commit_beyond_fetched", tcommitted, teverF>>} ELSE {})
    \cup (IF ccfg.mode \notin PollingModes /\ ~CommitLeYielded(tcommitted, teverY, 1..P)
          THEN {<<"C20.commit_beyond_yielded", tcommitted, teverY>>} ELSE {})
ViewLabels(e) == IF StoredOf(e.obs) # Known(e.obs) THEN {<<"C20.commit_view", StoredOf(e.obs), tcommitted>>} ELSE {}

Reset(e) ==
    /\ P' = e.partitions /\ pcfg' = e.producer /\ ccfg' = e.consumer
    /\ logs' = [k \in { Key(s, t, p) : s \in 1..2, t \in 1..2, p \in 1..e.partitions } |-> <<>>]
    /\ call' = <<>> /\ rem' = <<>> /\ chunks' = <<>>
    /\ tcommitted' = NoneP(e.partitions) /\ tlive' = 0 /\ tylast' = NoneP(e.partitions) /\ tystart' = NoneP(e.partitions)
    /\ teverY' = NoneP(e.partitions) /\ teverF' = NoneP(e.partitions) /\ keymap' = {}
    /\ dead' = FALSE /\ bad' = {}
Keep(vs) == UNCHANGED vs
Step(e) ==
    CASE e.ev = "call_begin" ->
           /\ call' = e /\ rem' = e.ms /\ chunks' = <<>> /\ bad' = {}
           /\ Keep(<<P, pcfg, ccfg, logs, tcommitted, tlive, tylast, tystart, teverY, teverF, keymap, dead>>)
      [] e.ev = "wire_send" ->
           /\ bad' = WireSendLabels(e)
           /\ rem' = IF e.res = "ok" /\ Len(e.ms) <= Len(rem) THEN SubSeq(rem, Len(e.ms) + 1, Len(rem)) ELSE rem
           /\ chunks' = IF e.res = "ok" /\ e.ms # <<>> THEN Append(chunks, e.ms) ELSE chunks
           /\ Keep(<<P, pcfg, ccfg, logs, call, tcommitted, tlive, tylast, tystart, teverY, teverF, keymap, dead>>)
      [] e.ev = "call_end" ->
           /\ bad' = IF call = <<>> THEN {} ELSE CallEndLabels(e)
           /\ logs' = [k \in Keys |-> e.obs.logs[k]]
           /\ keymap' = IF call # <<>> /\ SubSeq(ExpectedPart, 1, 4) = "key:"
                        THEN keymap \cup { <<<<Addressed, ExpectedPart>>, p>> : p \in UNION { Landing(e.obs, chunks[i]) : i \in 1..Len(chunks) } }
                        ELSE keymap
           /\ call' = <<>> /\ rem' = <<>> /\ chunks' = <<>>
           /\ tcommitted' = Known(e.obs)
           /\ Keep(<<P, pcfg, ccfg, tlive, tylast, tystart, teverY, teverF, dead>>)
      [] e.ev = "wire_poll" ->
           /\ bad' = WirePollLabels(e)
           /\ IF e.res = "ok" /\ e.offs # <<>> /\ e.p \in 1..P
              THEN /\ teverF' = [teverF EXCEPT ![e.p] = MaxOf(@, SeqMax(e.offs))]
                   /\ tystart' = IF tystart[e.p] # -1 THEN tystart
                                 ELSE [tystart EXCEPT ![e.p] = IF StrategyKind = "next" THEN tcommitted[e.p] + 1
                                                                ELSE IF StrategyKind = "offset" THEN StrategyOffset ELSE e.offs[1]]
                   /\ tcommitted' = IF e.auto_commit THEN [tcommitted EXCEPT ![e.p] = SeqMax(e.offs)] ELSE tcommitted
              ELSE Keep(<<teverF, tystart, tcommitted>>)
           /\ Keep(<<P, pcfg, ccfg, logs, call, rem, chunks, tlive, tylast, teverY, keymap, dead>>)
      [] e.ev = "yield" ->
           /\ bad' = YieldLabels(e)
           /\ IF e.p \in 1..P
              THEN tylast' = [tylast EXCEPT ![e.p] = e.o] /\ teverY' = [teverY EXCEPT ![e.p] = MaxOf(@, e.o)]
              ELSE Keep(<<tylast, teverY>>)
           /\ Keep(<<P, pcfg, ccfg, logs, call, rem, chunks, tcommitted, tlive, tystart, teverF, keymap, dead>>)
      [] e.ev = "wire_store" ->
           /\ bad' = WireStoreLabels(e)
           /\ tcommitted' = IF e.res = "ok" /\ e.partition \in 1..P THEN [tcommitted EXCEPT ![e.partition] = e.offset] ELSE tcommitted
           /\ Keep(<<P, pcfg, ccfg, logs, call, rem, chunks, tlive, tylast, tystart, teverY, teverF, keymap, dead>>)
      [] e.ev = "wire_store_lost" ->
           \* the consumer was dropped in the middle of a commit: the request may or may not have reached the server (-2: unknown
           \* until the next observation); it is bound by the property like any commit
           /\ bad' = IF e.partition \in 1..P /\ ~StoreAllowed(teverY, e.partition, e.offset)
                     THEN {<<"C20.commit_beyond_yielded", e.partition, e.offset, teverY[e.partition]>>} ELSE {}
           /\ tcommitted' = IF e.partition \in 1..P THEN [tcommitted EXCEPT ![e.partition] = -2] ELSE tcommitted
           /\ Keep(<<P, pcfg, ccfg, logs, call, rem, chunks, tlive, tylast, tystart, teverY, teverF, keymap, dead>>)
      [] e.ev = "created" ->
           /\ bad' = ViewLabels(e) /\ tlive' = e.inc /\ tylast' = NoneP(P) /\ tystart' = NoneP(P)
           /\ tcommitted' = Known(e.obs)
           /\ Keep(<<P, pcfg, ccfg, logs, call, rem, chunks, teverY, teverF, keymap, dead>>)
      [] e.ev = "dropped" ->
           /\ bad' = ViewLabels(e) /\ tlive' = 0 /\ tylast' = NoneP(P) /\ tystart' = NoneP(P)
           /\ tcommitted' = Known(e.obs)
           /\ Keep(<<P, pcfg, ccfg, logs, call, rem, chunks, teverY, teverF, keymap, dead>>)
      [] e.ev = "consume_end" ->
           /\ bad' = ConsumeEndLabels(e)
           /\ tcommitted' = Known(e.obs)
           /\ Keep(<<P, pcfg, ccfg, logs, call, rem, chunks, tlive, tylast, tystart, teverY, teverF, keymap, dead>>)
      [] OTHER -> bad' = {<<"X.unknown_event", e.ev>>} /\ Keep(<<P, pcfg, ccfg, logs, call, rem, chunks, tcommitted, tlive, tylast, tystart, teverY, teverF, keymap, dead>>)

TraceInit == /\ l = 1 /\ dead = TRUE /\ bad = {} /\ P = 0 /\ pcfg = <<>> /\ ccfg = <<>> /\ logs = <<>> /\ call = <<>> /\ rem = <<>>
             /\ chunks = <<>> /\ tcommitted = <<>> /\ tlive = 0 /\ tylast = <<>> /\ tystart = <<>> /\ teverY = <<>> /\ teverF = <<>>
             /\ keymap = {}
TraceNext ==
    /\ l <= Len(Rec) /\ l' = l + 1
    /\ LET e == Rec[l] IN
       IF e.ev = "reset" THEN Reset(e)
       ELSE IF dead THEN bad' = {} /\ Keep(<<P, pcfg, ccfg, logs, call, rem, chunks, tcommitted, tlive, tylast, tystart, teverY, teverF, keymap, dead>>)
       ELSE IF "fatal" \in DOMAIN e THEN bad' = {<<"X.fatal", e.ev, e.fatal>>} /\ dead' = TRUE
                 /\ Keep(<<P, pcfg, ccfg, logs, call, rem, chunks, tcommitted, tlive, tylast, tystart, teverY, teverF, keymap>>)
       ELSE Step(e)
TraceSpec == TraceInit /\ [][TraceNext]_tvars
NoBad == bad = {} \/ PrintT("BAD " \o ToJson([line |-> l - 1, sc |-> Rec[l - 1].sc, i |-> Rec[l - 1].i,
                                                    ev |-> Rec[l - 1].ev, labels |-> bad]))
TraceAccepted ==
    IF TLCGet("stats").diameter - 1 = Len(Rec) THEN PrintT(<<"CONSUMED", Len(Rec)>>)
    ELSE Print(<<"STUCK at line", TLCGet("stats").diameter>>, FALSE)
=============================================================================
