SPECIFICATION MCSpec
CONSTANTS
    NParts = 1
    KeySet = {"c1"}
    GroupKeys = {}
    DedupOn = FALSE
    IdSet = {0}
    MaxLen = 5
    MaxBatch = 2
    MaxNow = 2
    ExpirySet = {0,1}
    Threshold = 1
    SegCap = 2
    MaxOps = 6
    Ops = {"append","restart","tick","set_expiry","retention"}
CHECK_DEADLOCK FALSE
CONSTRAINT Bounded
INVARIANT EmitScript
