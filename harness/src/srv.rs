//! In-process server incarnations (one tokio runtime each) and SDK clients.
use iggy::client::{Client, UserClient};
use iggy::confirmation::Confirmation;
use iggy::http::client::HttpClient;
use iggy::tcp::client::TcpClient;
use iggy::tcp::config::TcpClientConfig;
use iggy::utils::byte_size::IggyByteSize;
use iggy::utils::duration::IggyDuration;
use iggy::utils::topic_size::MaxTopicSize;
use serde::{Deserialize, Serialize};
use server::configs::http::HttpConfig;
use server::configs::server::{DataMaintenanceConfig, PersonalAccessTokenConfig};
use server::configs::system::SystemConfig;
use server::configs::tcp::TcpConfig;
use server::http::http_server;
use server::streaming::systems::system::{SharedSystem, System};
use server::tcp::tcp_server;
use std::net::SocketAddr;
use std::sync::Arc;

pub const TICK_MICROS: u64 = 1_000_000_000; // one spec tick = 1000 s of clock offset
pub const ENC_KEY_A: &str = "/rj5RGhXlXmkmzwURwEyVrpiuTvQoyI0kM5Tb4Ov/k8=";
pub const ENC_KEY_B: &str = "AAECAwQFBgcICQoLDA0ODxAREhMUFRYXGBkaGxwdHh8=";

/// Storage / transport configuration of one scenario (the "configurations" quantifier).
#[derive(Debug, Clone, Serialize, Deserialize)]
#[serde(default)]
pub struct ScnConfig {
    pub save_threshold: u32,
    /// segment capacity in bytes (0 = 1 GB)
    pub segment_bytes: u64,
    pub cache: String, // "off" | "large" | "tiny"
    pub cache_indexes: bool,
    pub fsync: bool,
    pub confirmation: String, // "wait" | "no_wait"
    pub dedup: bool,
    pub encryption: bool,
    pub validate_checksum: bool,
    pub delete_oldest: bool,
    /// server-wide default max topic size in bytes (0 = unlimited)
    pub max_topic_bytes: u64,
    pub transport: String, // "tcp" | "http"
    pub recreate_missing_state: bool,
    pub max_tokens_per_user: u32,
    /// server runtime: 0 = current-thread (driven by the harness thread), n = multi-thread with n workers
    pub threads: u32,
}

impl Default for ScnConfig {
    fn default() -> Self {
        ScnConfig {
            save_threshold: 1000,
            segment_bytes: 0,
            cache: "off".into(),
            cache_indexes: true,
            fsync: false,
            confirmation: "wait".into(),
            dedup: false,
            encryption: false,
            validate_checksum: false,
            delete_oldest: false,
            max_topic_bytes: 0,
            transport: "tcp".into(),
            recreate_missing_state: true,
            max_tokens_per_user: 100,
            threads: 0,
        }
    }
}

pub fn build_config(path: &str, c: &ScnConfig, key: &str) -> Arc<SystemConfig> {
    let mut s = SystemConfig::default();
    s.path = path.to_string();
    s.partition.messages_required_to_save = c.save_threshold;
    s.partition.enforce_fsync = c.fsync;
    s.partition.validate_checksum = c.validate_checksum;
    s.state.enforce_fsync = c.fsync;
    s.segment.size = IggyByteSize::from(if c.segment_bytes == 0 {
        1_000_000_000u64
    } else {
        c.segment_bytes
    });
    s.segment.cache_indexes = c.cache_indexes;
    s.segment.server_confirmation = if c.confirmation == "no_wait" {
        Confirmation::NoWait
    } else {
        Confirmation::Wait
    };
    s.cache.enabled = c.cache != "off";
    if c.cache == "tiny" {
        s.cache.size = "300 B".parse().expect("cache size"); // four or five small messages
    } else {
        s.cache.size = "512 MB".parse().expect("cache size");
    }
    s.message_deduplication.enabled = c.dedup;
    s.message_deduplication.max_entries = 5_000; // far out of reach of any scenario (moka pre-sizes its sketch from this)
    s.message_deduplication.expiry = IggyDuration::new_from_secs(3600 * 24 * 365);
    s.encryption.enabled = c.encryption;
    s.encryption.key = key.to_string();
    s.topic.delete_oldest_segments = c.delete_oldest;
    s.topic.max_size = if c.max_topic_bytes == 0 {
        MaxTopicSize::Unlimited
    } else {
        MaxTopicSize::Custom(IggyByteSize::from(c.max_topic_bytes))
    };
    s.recovery.recreate_missing_state = c.recreate_missing_state;
    Arc::new(s)
}

pub struct Incarnation {
    pub rt: tokio::runtime::Runtime,
    pub system: SharedSystem,
    pub tcp: SocketAddr,
    pub http: Option<SocketAddr>,
    /// the QUIC listener, started when the scenario's transport is "quic"
    pub quic: Option<SocketAddr>,
}

pub fn start(config: Arc<SystemConfig>, scn: &ScnConfig, with_http: bool) -> Result<Incarnation, String> {
    // a server that never finishes starting (it normally takes milliseconds) is a finding, not a harness failure
    let _watchdog = crate::util::Watchdog::arm("server start", 240);
    server::streaming::systems::streams::verif_reset_process_globals();
    let t0 = std::time::Instant::now();
    // Sequential lenses drive everything (server tasks and SDK client calls) from the calling thread through
    // `rt.block_on`: no cross-thread wake-ups, deterministic scheduling; file I/O still runs on tokio's blocking pool.
    let rt = if scn.threads == 0 {
        tokio::runtime::Builder::new_current_thread()
            .enable_all()
            .build()
            .map_err(|e| e.to_string())?
    } else {
        tokio::runtime::Builder::new_multi_thread()
            .worker_threads(scn.threads as usize)
            .enable_all()
            .build()
            .map_err(|e| e.to_string())?
    };
    let pat = PersonalAccessTokenConfig {
        max_tokens_per_user: scn.max_tokens_per_user,
        ..PersonalAccessTokenConfig::default()
    };
    let with_quic = scn.transport == "quic";
    let res: Result<(SharedSystem, SocketAddr, Option<SocketAddr>, Option<SocketAddr>), String> =
        match std::panic::catch_unwind(std::panic::AssertUnwindSafe(|| {
            rt.block_on(async move {
                let system = SharedSystem::new(System::new(
                    config.clone(),
                    DataMaintenanceConfig::default(),
                    pat,
                ));
                system
                    .write()
                    .await
                    .get_stats()
                    .await
                    .map_err(|e| format!("get_stats: {e}"))?;
                system
                    .write()
                    .await
                    .init()
                    .await
                    .map_err(|e| format!("init: {e}"))?;
                let mut tcpc = TcpConfig::default();
                tcpc.address = "127.0.0.1:0".into();
                let tcp = tcp_server::start(tcpc, system.clone()).await;
                let http = if with_http {
                    let mut httpc = HttpConfig::default();
                    httpc.address = "127.0.0.1:0".into();
                    Some(http_server::start(httpc, system.clone()).await)
                } else {
                    None
                };
                let quic = if with_quic {
                    let mut qc = server::configs::quic::QuicConfig::default();
                    qc.address = "127.0.0.1:0".into();
                    qc.certificate.self_signed = true;
                    Some(server::quic::quic_server::start(qc, system.clone()))
                } else {
                    None
                };
                Ok::<_, String>((system, tcp, http, quic))
            })
        })) {
            Ok(r) => r,
            Err(_) => Err("panic during start-up".to_string()),
        };
    if std::env::var("VERIF_TIMING").is_ok() {
        eprintln!("[timing] start {:?}", t0.elapsed());
    }
    match res {
        Ok((system, tcp, http, quic)) => Ok(Incarnation { rt, system, tcp, http, quic }),
        Err(e) => {
            rt.shutdown_timeout(std::time::Duration::from_millis(200));
            Err(e)
        }
    }
}

/// graceful: what main.rs does on SIGTERM (System::shutdown), then the process "exits" (runtime dropped).
pub fn stop(inc: Incarnation, graceful: bool) -> Result<(), String> {
    let t0 = std::time::Instant::now();
    let mut res = Ok(());
    if graceful {
        let system = inc.system.clone();
        res = match std::panic::catch_unwind(std::panic::AssertUnwindSafe(|| {
            inc.rt.block_on(async move {
                system
                    .write()
                    .await
                    .shutdown()
                    .await
                    .map_err(|e| format!("shutdown: {e}"))
            })
        })) {
            Ok(r) => r,
            Err(_) => Err("panic during shutdown".to_string()),
        };
    }
    drop(inc.system);
    inc.rt.shutdown_timeout(std::time::Duration::from_secs(2));
    if std::env::var("VERIF_TIMING").is_ok() {
        eprintln!("[timing] stop {:?}", t0.elapsed());
    }
    res
}

pub async fn tcp_connect(addr: SocketAddr) -> Result<TcpClient, String> {
    let mut c = TcpClientConfig::default();
    c.server_address = addr.to_string();
    c.reconnection.enabled = false;
    c.nodelay = true;
    c.heartbeat_interval = IggyDuration::new_from_secs(3600);
    let client = TcpClient::create(Arc::new(c)).map_err(|e| e.to_string())?;
    Client::connect(&client).await.map_err(|e| e.to_string())?;
    Ok(client)
}

pub async fn tcp_root(addr: SocketAddr) -> Result<TcpClient, String> {
    let client = tcp_connect(addr).await?;
    client
        .login_user("iggy", "iggy")
        .await
        .map_err(|e| e.to_string())?;
    Ok(client)
}

pub async fn quic_root(addr: SocketAddr) -> Result<iggy::quic::client::QuicClient, String> {
    let mut c = iggy::quic::config::QuicClientConfig::default();
    c.server_address = addr.to_string();
    c.client_address = "127.0.0.1:0".into();
    c.server_name = "localhost".into();
    c.validate_certificate = false;
    c.reconnection.enabled = false;
    c.heartbeat_interval = IggyDuration::new_from_secs(3600);
    let client = iggy::quic::client::QuicClient::create(Arc::new(c)).map_err(|e| e.to_string())?;
    Client::connect(&client).await.map_err(|e| e.to_string())?;
    client.login_user("iggy", "iggy").await.map_err(|e| e.to_string())?;
    Ok(client)
}

pub async fn http_root(addr: SocketAddr) -> Result<HttpClient, String> {
    let http = HttpClient::new(&format!("http://{}", addr)).map_err(|e| e.to_string())?;
    http.login_user("iggy", "iggy")
        .await
        .map_err(|e| e.to_string())?;
    Ok(http)
}

pub fn set_tick(tick: u64) {
    iggy::utils::timestamp::verif_clock::set_offset_micros(tick * TICK_MICROS);
}
