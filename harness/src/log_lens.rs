//! Data-path lens: one topic with `parts` partitions driven through the real TCP handlers; after every
//! step an observation sweep (every poll (o,n), first/last/next/timestamp polls, stored offsets, counters)
//! is logged together with a cheap projection of the segment layout.
use crate::srv::{self, Incarnation, ScnConfig};
use crate::util::{err_class, res_of, Rng, TraceWriter};
use bytes::Bytes;
use iggy::client::{
    ConsumerGroupClient, ConsumerOffsetClient, MessageClient, StreamClient, SystemClient, TopicClient,
};
use iggy::compression::compression_algorithm::CompressionAlgorithm;
use iggy::consumer::Consumer;
use iggy::error::IggyError;
use iggy::identifier::Identifier;
use iggy::locking::IggySharedMutFn;
use iggy::messages::poll_messages::PollingStrategy;
use iggy::messages::send_messages::{Message, Partitioning};
use iggy::models::header::{HeaderKey, HeaderValue};
use iggy::models::messages::{PolledMessage, PolledMessages};
use iggy::tcp::client::TcpClient;
use iggy::utils::duration::IggyDuration;
use iggy::utils::expiry::IggyExpiry;
use iggy::utils::timestamp::IggyTimestamp;
use iggy::utils::topic_size::MaxTopicSize;
use serde::Deserialize;
use serde_json::{json, Value};
use server::channels::commands::maintain_messages::{
    MaintainMessagesCommand, MaintainMessagesExecutor, MessagesMaintainer,
};
use server::channels::server_command::ServerCommand;
use server::configs::server::MessagesMaintenanceConfig;
use std::collections::HashMap;
use std::str::FromStr;

pub const STREAM: &str = "vstream";
pub const TOPIC: &str = "vtopic";

#[derive(Debug, Clone, Deserialize)]
pub struct Scenario {
    pub id: String,
    #[serde(default)]
    pub cfg: ScnConfig,
    #[serde(default)]
    pub seed: u64,
    #[serde(default = "one")]
    pub parts: u32,
    /// topic message expiry in ticks (0 = never)
    #[serde(default)]
    pub expiry: u64,
    /// fixed payload length (0 = seeded variable length, headers allowed)
    #[serde(default)]
    pub payload_len: usize,
    /// "full" (all (o,n)) or "sampled"
    #[serde(default = "full")]
    pub sweep: String,
    #[serde(default)]
    pub whos: Vec<String>,
    pub steps: Vec<Value>,
}
fn one() -> u32 {
    1
}
fn full() -> String {
    "full".into()
}

struct Sent {
    id_class: u64,
    id: u128, // 0 = server-assigned
    payload: Bytes,
    headers: Option<HashMap<HeaderKey, HeaderValue>>,
    t_lo: u64,
    t_hi: u64,
    first_id: Option<u128>,
    first_ts: Option<u64>,
    first_checksum: Option<u32>,
}

pub struct LogLens {
    driver: tokio::runtime::Runtime,
    maintain_cmd: MaintainMessagesCommand,
    pub work: String,
}

struct Run<'a> {
    scn: &'a Scenario,
    dir: String,
    key: String,
    inc: Option<Incarnation>,
    client: Option<TcpClient>,
    sent: HashMap<u64, Sent>,
    next_m: u64,
    tick: u64,
    seen_ts: Vec<std::collections::BTreeMap<u64, u64>>, // per partition: offset -> timestamp, from every poll result
    sent_upper: Vec<u64>, // per partition: messages offered since the last purge (upper bound of log length)
    rng: Rng,
    stats: HashMap<String, u64>,
}

fn who_consumer(who: &str) -> Consumer {
    // c<N> numeric consumer, n<name> named consumer, g<N> group by numeric id, h<N> group N addressed by name "g<N>"
    let (k, rest) = who.split_at(1);
    match k {
        "c" => Consumer::new(Identifier::numeric(rest.parse().unwrap()).unwrap()),
        "n" => Consumer::new(Identifier::named(rest).unwrap()),
        "g" => Consumer::group(Identifier::numeric(rest.parse().unwrap()).unwrap()),
        "h" => Consumer::group(Identifier::named(&format!("g{rest}")).unwrap()),
        _ => panic!("bad who {who}"),
    }
}

fn group_num(who: &str) -> Option<u32> {
    let (k, rest) = who.split_at(1);
    if k == "g" || k == "h" {
        Some(rest.parse().unwrap())
    } else {
        None
    }
}

fn obtain_maintain_command() -> MaintainMessagesCommand {
    // The command's fields are private; the real maintainer hands us one (cleaner on, archiver off).
    let rt = tokio::runtime::Builder::new_current_thread()
        .enable_all()
        .build()
        .unwrap();
    let cmd = rt.block_on(async {
        let (tx, rx) = flume::unbounded();
        let cfg = MessagesMaintenanceConfig {
            archiver_enabled: false,
            cleaner_enabled: true,
            interval: IggyDuration::from_str("1ms").unwrap(),
        };
        MessagesMaintainer::new(&cfg, tx).start();
        rx.recv_async().await.expect("maintain command")
    });
    rt.shutdown_background();
    cmd
}

impl LogLens {
    pub fn new(work: &str) -> Self {
        LogLens {
            driver: tokio::runtime::Builder::new_current_thread()
                .enable_all()
                .build()
                .unwrap(),
            maintain_cmd: obtain_maintain_command(),
            work: work.to_string(),
        }
    }

    pub fn run_scenario(&self, idx: usize, scn: &Scenario, out: &mut TraceWriter) -> Result<(), String> {
        let dir = format!("{}/d{}", self.work, idx);
        let _ = std::fs::remove_dir_all(&dir);
        std::fs::create_dir_all(&dir).map_err(|e| e.to_string())?;
        srv::set_tick(0);
        let mut run = Run {
            scn,
            dir: dir.clone(),
            key: srv::ENC_KEY_A.to_string(),
            inc: None,
            client: None,
            sent: HashMap::new(),
            next_m: 1,
            tick: 0,
            seen_ts: vec![Default::default(); scn.parts as usize + 1],
            sent_upper: vec![0; scn.parts as usize + 1],
            rng: Rng(scn.seed ^ 0x5eed),
            stats: HashMap::new(),
        };
        let t_start = std::time::Instant::now();
        let r = self.run_inner(idx, &mut run, out);
        if let Some(inc) = run.inc.take() {
            drop(run.client.take());
            let _ = srv::stop(inc, false);
        }
        let _ = std::fs::remove_dir_all(&dir);
        if t_start.elapsed().as_micros() as u64 > srv::TICK_MICROS / 2 {
            return Err(format!("scenario {} ran longer than half a tick", scn.id));
        }
        r
    }

    fn start_inc(&self, run: &mut Run) -> Result<(), String> {
        let config = srv::build_config(&run.dir, &run.scn.cfg, &run.key);
        let inc = srv::start(config, &run.scn.cfg, false)?;
        let client = inc.rt.block_on(srv::tcp_root(inc.tcp))?;
        run.inc = Some(inc);
        run.client = Some(client);
        Ok(())
    }

    fn run_inner(&self, idx: usize, run: &mut Run, out: &mut TraceWriter) -> Result<(), String> {
        let scn = run.scn;
        self.start_inc(run)?;
        let expiry = expiry_of(scn.expiry);
        run.inc.as_ref().unwrap().rt.block_on(async {
            let c = run.client.as_ref().unwrap();
            c.create_stream(STREAM, Some(1)).await.map_err(|e| e.to_string())?;
            c.create_topic(
                &Identifier::named(STREAM).unwrap(),
                TOPIC,
                scn.parts,
                CompressionAlgorithm::None,
                None,
                Some(1),
                expiry,
                MaxTopicSize::ServerDefault,
            )
            .await
            .map_err(|e| e.to_string())?;
            for w in &scn.whos {
                if let Some(g) = group_num(w) {
                    let _ = c
                        .create_consumer_group(
                            &Identifier::named(STREAM).unwrap(),
                            &Identifier::named(TOPIC).unwrap(),
                            &format!("g{g}"),
                            Some(g),
                        )
                        .await;
                }
            }
            Ok::<(), String>(())
        })?;
        let mut keys = serde_json::Map::new();
        let mut isgroup = serde_json::Map::new();
        for w in &scn.whos {
            let key = if w.starts_with('h') { format!("g{}", &w[1..]) } else { w.clone() };
            keys.insert(w.clone(), json!(key));
            isgroup.insert(w.clone(), json!(group_num(w).is_some()));
        }
        out.emit(&json!({"ev":"reset","sc":idx,"id":scn.id,"cfg":serde_json::to_value(&scn.cfg).unwrap(),
            "parts":scn.parts,"expiry":scn.expiry,"whos":scn.whos,"keys":keys,"isgroup":isgroup,"dedup":scn.cfg.dedup,
            "nowait": scn.cfg.confirmation == "no_wait"}));
        for (i, step) in scn.steps.iter().enumerate() {
            let mut ev = self.exec_step(run, step)?;
            {
                let o = ev.as_object_mut().unwrap();
                o.insert("sc".into(), json!(idx));
                o.insert("i".into(), json!(i + 1));
                o.insert("now".into(), json!(run.tick));
            }
            if ev.get("fatal").is_some() || ev.get("end").is_some() {
                out.emit(&ev);
                break;
            }
            match self.observe(run) {
                Ok((post, obs)) => {
                    let o = ev.as_object_mut().unwrap();
                    o.insert("post".into(), post);
                    o.insert("obs".into(), obs);
                    out.emit(&ev);
                }
                Err(e) => {
                    ev.as_object_mut().unwrap().insert("fatal".into(), json!(format!("observe failed: {e}")));
                    out.emit(&ev);
                    break;
                }
            }
        }
        Ok(())
    }

    fn reconnect_if_closed(&self, run: &mut Run, res: &str) {
        if res == "closed" {
            if let Some(inc) = run.inc.as_ref() {
                if let Ok(c) = inc.rt.block_on(srv::tcp_root(inc.tcp)) {
                    run.client = Some(c);
                }
            }
        }
    }

    fn exec_step(&self, run: &mut Run, step: &Value) -> Result<Value, String> {
        let op = step["op"].as_str().ok_or("step without op")?.to_string();
        let sid = Identifier::named(STREAM).unwrap();
        let tid = Identifier::named(TOPIC).unwrap();
        let p = step["p"].as_u64().unwrap_or(1) as u32;
        *run.stats.entry(op.clone()).or_insert(0) += 1;
        let ev = match op.as_str() {
            "append" => {
                let ids: Vec<u64> = step["ids"]
                    .as_array()
                    .ok_or("append without ids")?
                    .iter()
                    .map(|v| v.as_u64().unwrap())
                    .collect();
                let mut msgs = vec![];
                let mut batch = vec![];
                for idc in &ids {
                    let m = run.next_m;
                    run.next_m += 1;
                    let (msg, sent) = make_message(run, m, *idc);
                    msgs.push(msg);
                    run.sent.insert(m, sent);
                    batch.push(json!([m, idc]));
                }
                let t_lo = IggyTimestamp::now().as_micros();
                let r = run.inc.as_ref().unwrap().rt.block_on(async {
                    run.client
                        .as_ref()
                        .unwrap()
                        .send_messages(&sid, &tid, &Partitioning::partition_id(p), &mut msgs)
                        .await
                });
                let t_hi = IggyTimestamp::now().as_micros();
                for b in &batch {
                    let s = run.sent.get_mut(&b[0].as_u64().unwrap()).unwrap();
                    s.t_lo = t_lo;
                    s.t_hi = t_hi;
                }
                if (p as usize) < run.sent_upper.len() {
                    run.sent_upper[p as usize] += ids.len() as u64;
                }
                let res = res_of(&r);
                self.reconnect_if_closed(run, &res);
                json!({"ev":"append","p":p,"batch":batch,"res":res})
            }
            "flush" => {
                let fsync = step["fsync"].as_bool().unwrap_or(false);
                let r = run.inc.as_ref().unwrap().rt.block_on(async {
                    run.client
                        .as_ref()
                        .unwrap()
                        .flush_unsaved_buffer(&sid, &tid, p, fsync)
                        .await
                });
                let res = res_of(&r);
                self.reconnect_if_closed(run, &res);
                json!({"ev":"flush","p":p,"res":res})
            }
            "bg_save" => {
                let system = run.inc.as_ref().unwrap().system.clone();
                let h = run.inc.as_ref().unwrap().rt.spawn(async move {
                    system.read().await.persist_messages().await.map(|_| ())
                });
                let res = match run.inc.as_ref().unwrap().rt.block_on(h) {
                    Ok(r) => res_of(&r),
                    Err(_) => "panic".to_string(),
                };
                json!({"ev":"bg_save","res":res})
            }
            "retention" => {
                let system = run.inc.as_ref().unwrap().system.clone();
                let cmd = self.maintain_cmd.clone();
                let h = run.inc.as_ref().unwrap().rt.spawn(async move {
                    let mut ex = MaintainMessagesExecutor;
                    ex.execute(&system, cmd).await;
                });
                let res = match run.inc.as_ref().unwrap().rt.block_on(h) {
                    Ok(_) => "ok".to_string(),
                    Err(_) => "panic".to_string(),
                };
                json!({"ev":"retention","res":res})
            }
            "tick" => {
                let by = step["by"].as_u64().unwrap_or(1);
                run.tick += by;
                srv::set_tick(run.tick);
                json!({"ev":"tick","by":by,"res":"ok"})
            }
            "set_expiry" => {
                let e = step["e"].as_u64().unwrap_or(0);
                let r = run.inc.as_ref().unwrap().rt.block_on(async {
                    run.client
                        .as_ref()
                        .unwrap()
                        .update_topic(
                            &sid,
                            &tid,
                            TOPIC,
                            CompressionAlgorithm::None,
                            None,
                            expiry_of(e),
                            MaxTopicSize::ServerDefault,
                        )
                        .await
                });
                let res = res_of(&r);
                self.reconnect_if_closed(run, &res);
                json!({"ev":"set_expiry","e":e,"res":res})
            }
            "purge" => {
                let r = run.inc.as_ref().unwrap().rt.block_on(async { run.client.as_ref().unwrap().purge_topic(&sid, &tid).await });
                let res = res_of(&r);
                if res == "ok" {
                    for u in run.sent_upper.iter_mut() {
                        *u = 0;
                    }
                    for u in run.seen_ts.iter_mut() {
                        u.clear();
                    }
                }
                self.reconnect_if_closed(run, &res);
                json!({"ev":"purge","res":res})
            }
            "restart" => {
                let mode = step["mode"].as_str().unwrap_or("graceful").to_string();
                let mut res = "ok".to_string();
                if mode == "flush" {
                    // "an explicit flush of every partition" followed by an abrupt end of the incarnation
                    for pp in 1..=run.scn.parts {
                        let r = run.inc.as_ref().unwrap().rt.block_on(async {
                            run.client
                                .as_ref()
                                .unwrap()
                                .flush_unsaved_buffer(&sid, &tid, pp, false)
                                .await
                        });
                        if r.is_err() {
                            res = res_of(&r);
                        }
                    }
                }
                drop(run.client.take());
                let inc = run.inc.take().unwrap();
                if let Err(e) = srv::stop(inc, mode == "graceful") {
                    res = if e.starts_with("panic") { "panic".into() } else { format!("err:{e}") };
                }
                if let Some(k) = step["key"].as_str() {
                    run.key = if k == "B" { srv::ENC_KEY_B.into() } else { srv::ENC_KEY_A.into() };
                }
                let wrong_key = run.scn.cfg.encryption && run.key != srv::ENC_KEY_A;
                if wrong_key {
                    // C19: a start with ANOTHER key. The encrypted journal is undecryptable: that must be reported as an error
                    // (the start fails); if the server comes up all the same it must not hand out the old data. Then the server
                    // is started with the RIGHT key again: catalogue and data must be exactly what they were.
                    let mut outcome: Vec<&str> = vec![];
                    match self.start_inc(run) {
                        Err(_) => outcome.push("start_failed"),
                        Ok(()) => {
                            outcome.push("started");
                            for pp in 1..=run.scn.parts {
                                let obsc = Consumer::new(Identifier::numeric(9999).unwrap());
                                let o = match self.poll(run, pp, &obsc, &PollingStrategy::offset(0), 1000) {
                                    Ok(pm) if pm.messages.is_empty() => "empty",
                                    Ok(pm) => {
                                        // ciphertext handed out as if it were content, or - impossible - the plaintext
                                        if pm.messages.iter().any(|m| m.payload.len() >= 3 && &m.payload[0..3] == b"<<M") { "plaintext" } else { "messages" }
                                    }
                                    Err(_) => "error",
                                };
                                outcome.push(o);
                            }
                            drop(run.client.take());
                            if let Some(inc) = run.inc.take() {
                                let _ = srv::stop(inc, true);
                            }
                        }
                    }
                    run.key = srv::ENC_KEY_A.into();
                    if let Err(e) = self.start_inc(run) {
                        return Ok(json!({"ev":"restart","mode":mode,"res":res,"wrong_key_outcome":outcome,"fatal":format!("start with the right key failed after a start with another key: {e}")}));
                    }
                    return Ok(json!({"ev":"restart","mode":mode,"res":res,"wrong_key_outcome":outcome}));
                }
                if let Err(e) = self.start_inc(run) {
                    // start-up failed: this is data (the event has no sweep and the scenario ends here)
                    return Ok(json!({"ev":"restart","mode":mode,"res":res,"fatal":format!("start failed: {e}")}));
                }
                json!({"ev":"restart","mode":mode,"res":res})
            }
            "store" => {
                let who = step["who"].as_str().ok_or("store without who")?;
                let o = step["o"].as_u64().unwrap_or(0);
                let r = run.inc.as_ref().unwrap().rt.block_on(async {
                    run.client
                        .as_ref()
                        .unwrap()
                        .store_consumer_offset(&who_consumer(who), &sid, &tid, Some(p), o)
                        .await
                });
                let res = res_of(&r);
                self.reconnect_if_closed(run, &res);
                json!({"ev":"store","who":who,"p":p,"o":o,"res":res})
            }
            "del_offset" => {
                let who = step["who"].as_str().ok_or("del_offset without who")?;
                let r = run.inc.as_ref().unwrap().rt.block_on(async {
                    run.client
                        .as_ref()
                        .unwrap()
                        .delete_consumer_offset(&who_consumer(who), &sid, &tid, Some(p))
                        .await
                });
                let res = res_of(&r);
                self.reconnect_if_closed(run, &res);
                json!({"ev":"del_offset","who":who,"p":p,"res":res})
            }
            "poll_next" => {
                let who = step["who"].as_str().ok_or("poll_next without who")?;
                let n = step["n"].as_u64().unwrap_or(1) as u32;
                let auto = step["auto"].as_bool().unwrap_or(false);
                let r = run.inc.as_ref().unwrap().rt.block_on(async {
                    run.client
                        .as_ref()
                        .unwrap()
                        .poll_messages(&sid, &tid, Some(p), &who_consumer(who), &PollingStrategy::next(), n, auto)
                        .await
                });
                let res = res_of(&r);
                self.reconnect_if_closed(run, &res);
                let rr = match &r {
                    Ok(pm) => map_msgs(run, p, &pm.messages),
                    Err(_) => json!([]),
                };
                json!({"ev":"poll_next","who":who,"p":p,"n":n,"auto":auto,"res":res,"r":rr})
            }
            "poll_auto" => {
                let who = step["who"].as_str().ok_or("poll_auto without who")?;
                let n = step["n"].as_u64().unwrap_or(1) as u32;
                let o = step["o"].as_u64().unwrap_or(0);
                let r = run.inc.as_ref().unwrap().rt.block_on(async {
                    run.client
                        .as_ref()
                        .unwrap()
                        .poll_messages(&sid, &tid, Some(p), &who_consumer(who), &PollingStrategy::offset(o), n, true)
                        .await
                });
                let res = res_of(&r);
                self.reconnect_if_closed(run, &res);
                let rr = match &r {
                    Ok(pm) => map_msgs(run, p, &pm.messages),
                    Err(_) => json!([]),
                };
                json!({"ev":"poll_auto","who":who,"p":p,"o":o,"n":n,"res":res,"r":rr})
            }
            "del_group" | "make_group" => {
                let who = step["who"].as_str().ok_or("group op without who")?;
                let g = group_num(who).ok_or("not a group")?;
                let r = if op == "del_group" {
                    run.inc.as_ref().unwrap().rt.block_on(async {
                        run.client
                            .as_ref()
                            .unwrap()
                            .delete_consumer_group(&sid, &tid, &Identifier::numeric(g).unwrap())
                            .await
                    })
                } else {
                    run.inc.as_ref().unwrap().rt.block_on(async {
                        run.client
                            .as_ref()
                            .unwrap()
                            .create_consumer_group(&sid, &tid, &format!("g{g}"), Some(g))
                            .await
                            .map(|_| ())
                    })
                };
                let res = res_of(&r);
                self.reconnect_if_closed(run, &res);
                json!({"ev":op,"who":format!("g{g}"),"res":res})
            }
            other => return Err(format!("unknown op {other}")),
        };
        Ok(ev)
    }

    /// Projection of internal layout (selects spec disjuncts only) and the observation sweep.
    fn observe(&self, run: &mut Run) -> Result<(Value, Value), String> {
        let scn = run.scn;
        let system = run.inc.as_ref().unwrap().system.clone();
        let parts = scn.parts;
        let post = run.inc.as_ref().unwrap().rt.block_on(async {
            let sys = system.read().await;
            let mut post = vec![];
            let stream = sys
                .get_stream(&Identifier::named(STREAM).unwrap())
                .map_err(|e| format!("projection: {e}"))?;
            let topic = stream
                .get_topic(&Identifier::named(TOPIC).unwrap())
                .map_err(|e| format!("projection: {e}"))?;
            for p in 1..=parts {
                let part = topic.get_partition(p).map_err(|e| format!("projection: {e}"))?;
                let part = part.read().await;
                let segs: Vec<Value> = part
                    .get_segments()
                    .iter()
                    .map(|s| {
                        let unsaved = s
                            .unsaved_messages
                            .as_ref()
                            .map(|a| a.unsaved_messages_count())
                            .unwrap_or(0);
                        json!({"start": s.start_offset, "cur": s.current_offset, "closed": s.is_closed,
                               "unsaved": unsaved, "bytes": s.size_bytes.as_bytes_u64()})
                    })
                    .collect();
                let cache_lo: i64 = match part.cache.as_ref() {
                    Some(c) if !c.is_empty() => c[0].offset as i64,
                    _ => -1,
                };
                post.push(json!({"segs": segs, "cache_lo": cache_lo, "unsaved": part.unsaved_messages_count}));
            }
            Ok::<Value, String>(json!(post))
        })?;

        let mut obs = vec![];
        for p in 1..=parts {
            obs.push(self.sweep_partition(run, p)?);
        }
        // C19: with encryption on no payload may be found in clear in any file the server wrote (every payload starts with "<<M0")
        if scn.cfg.encryption {
            let hits = crate::util::scan_files_for(&run.dir, &[b"<<M0".to_vec()]);
            if let Some(o) = obs[0].as_object_mut() {
                o.insert("plain_hits".into(), json!(hits));
            }
        }
        Ok((post, json!(obs)))
    }

    fn poll(
        &self,
        run: &Run,
        p: u32,
        who: &Consumer,
        strat: &PollingStrategy,
        n: u32,
    ) -> Result<PolledMessages, IggyError> {
        let sid = Identifier::named(STREAM).unwrap();
        let tid = Identifier::named(TOPIC).unwrap();
        if std::env::var("VERIF_DEBUG").is_ok() {
            eprintln!("[debug] poll p={p} who={who} strat={strat} n={n}");
        }
        run.inc.as_ref().unwrap().rt.block_on(async {
            run.client
                .as_ref()
                .unwrap()
                .poll_messages(&sid, &tid, Some(p), who, strat, n, false)
                .await
        })
    }

    fn sweep_partition(&self, run: &mut Run, p: u32) -> Result<Value, String> {
        let scn = run.scn;
        let sid = Identifier::named(STREAM).unwrap();
        let tid = Identifier::named(TOPIC).unwrap();
        let upper = run.sent_upper[p as usize];
        let obsc = Consumer::new(Identifier::numeric(9999).unwrap());
        let mut errs: Vec<String> = vec![];
        // full read
        let big = (upper + 4) as u32;
        let (cur, read, read_ts) = match self.poll(run, p, &obsc, &PollingStrategy::offset(0), big) {
            Ok(pm) => {
                let ts: Vec<(u64, u64)> = pm.messages.iter().map(|m| (m.offset, m.timestamp)).collect();
                (pm.current_offset as i64, map_msgs(run, p, &pm.messages), ts)
            }
            Err(e) => {
                errs.push(format!("read:{}", err_class(&e)));
                (-1, json!([]), vec![])
            }
        };
        let ts_mono = read_ts.windows(2).all(|w| w[0].1 <= w[1].1);
        // duplicates dropped by the server make the offered count a loose bound: sweep up to what is there (+2)
        let upper = std::cmp::min(upper, std::cmp::max(cur.max(0) as u64, read_ts.len() as u64) + 2);
        // every (o, n)
        let mut polls = vec![];
        let pairs: Vec<(u64, u32)> = if scn.sweep == "full" || upper <= 6 {
            let mut v = vec![];
            for o in 0..=upper {
                for n in 1..=(upper as u32 + 1) {
                    v.push((o, n));
                }
            }
            v
        } else {
            sampled_pairs(run, p, upper)
        };
        for (o, n) in pairs {
            match self.poll(run, p, &obsc, &PollingStrategy::offset(o), n) {
                Ok(pm) => {
                    let r = map_msgs(run, p, &pm.messages);
                    polls.push(json!([o, n, r, pm.current_offset]));
                }
                Err(e) => errs.push(format!("poll({o},{n}):{}", err_class(&e))),
            }
        }
        let ns: Vec<u32> = if upper <= 12 {
            (1..=(upper as u32 + 1)).collect()
        } else {
            vec![1, 2, 3, upper as u32 / 2, upper as u32, upper as u32 + 1]
        };
        let mut first = vec![];
        let mut last = vec![];
        for n in &ns {
            match self.poll(run, p, &obsc, &PollingStrategy::first(), *n) {
                Ok(pm) => first.push(json!([n, map_msgs(run, p, &pm.messages)])),
                Err(e) => errs.push(format!("first({n}):{}", err_class(&e))),
            }
            match self.poll(run, p, &obsc, &PollingStrategy::last(), *n) {
                Ok(pm) => last.push(json!([n, map_msgs(run, p, &pm.messages)])),
                Err(e) => errs.push(format!("last({n}):{}", err_class(&e))),
            }
        }
        // timestamp polls: t at (a sample of) stored timestamps, +-1, 0 and the far future
        let mut by_ts = vec![];
        let mut tvals: Vec<u64> = vec![0, u64::MAX / 4];
        let all_ts: Vec<u64> = run.seen_ts[p as usize].values().cloned().collect();
        let stride = std::cmp::max(1, all_ts.len() / 3);
        for (i, ts) in all_ts.iter().enumerate() {
            if i % stride == 0 || i + 1 == all_ts.len() {
                tvals.push(*ts);
                tvals.push(*ts + 1);
                tvals.push(ts.saturating_sub(1));
            }
        }
        tvals.sort();
        tvals.dedup();
        for t in tvals {
            // rank = first offset (of the full read) whose timestamp >= t; cur+1 when there is none
            let known = &run.seen_ts[p as usize];
            let k: i64 = known
                .iter()
                .find(|(_, ts)| **ts >= t)
                .map(|(o, _)| *o as i64)
                .unwrap_or(known.keys().next_back().map(|o| *o as i64 + 1).unwrap_or(0));
            for n in [1u32, upper as u32 + 1] {
                match self.poll(run, p, &obsc, &PollingStrategy::timestamp(IggyTimestamp::from(t)), n) {
                    Ok(pm) => by_ts.push(json!([k, n, map_msgs(run, p, &pm.messages)])),
                    Err(e) => errs.push(format!("ts({t},{n}):{}", err_class(&e))),
                }
            }
        }
        // stored offsets and 'next' of every identity
        let mut stored = serde_json::Map::new();
        let mut next = vec![];
        for w in &scn.whos {
            let c = who_consumer(w);
            let r = run.inc.as_ref().unwrap().rt.block_on(async {
                run.client
                    .as_ref()
                    .unwrap()
                    .get_consumer_offset(&c, &sid, &tid, Some(p))
                    .await
            });
            match r {
                Ok(Some(info)) => {
                    stored.insert(w.clone(), json!(info.stored_offset as i64));
                }
                Ok(None) => {
                    stored.insert(w.clone(), json!(-1));
                }
                Err(IggyError::ConsumerGroupIdNotFound(_, _)) | Err(IggyError::ConsumerGroupNameNotFound(_, _)) => {
                    stored.insert(w.clone(), json!(-2));
                }
                Err(e) => {
                    stored.insert(w.clone(), json!(-3));
                    errs.push(format!("get_offset({w}):{}", err_class(&e)));
                }
            }
            for n in [1u32, 3] {
                match self.poll(run, p, &c, &PollingStrategy::next(), n) {
                    Ok(pm) => next.push(json!([w, n, map_msgs(run, p, &pm.messages)])),
                    Err(IggyError::ConsumerGroupIdNotFound(_, _)) | Err(IggyError::ConsumerGroupNameNotFound(_, _)) => {}
                    Err(e) => errs.push(format!("next({w},{n}):{}", err_class(&e))),
                }
            }
        }
        // counters
        if std::env::var("VERIF_DEBUG").is_ok() {
            eprintln!("[debug] get_topic");
        }
        let topic = run.inc.as_ref().unwrap().rt.block_on(async { run.client.as_ref().unwrap().get_topic(&sid, &tid).await });
        let (count, tcur, nsegs, tcount) = match topic {
            Ok(Some(t)) => {
                let part = t.partitions.iter().find(|x| x.id == p);
                match part {
                    Some(pp) => (
                        pp.messages_count as i64,
                        pp.current_offset as i64,
                        pp.segments_count as i64,
                        t.messages_count as i64,
                    ),
                    None => (-1, -1, -1, t.messages_count as i64),
                }
            }
            _ => (-1, -1, -1, -1),
        };
        Ok(json!({"cur":cur,"read":read,"ts_mono":ts_mono,"polls":polls,"first":first,"last":last,"by_ts":by_ts,
                  "stored":stored,"next":next,"count":count,"tcur":tcur,"nsegs":nsegs,"tcount":tcount,"errs":errs}))
    }
}

fn sampled_pairs(run: &mut Run, _p: u32, upper: u64) -> Vec<(u64, u32)> {
    let mut v = vec![];
    let interesting: Vec<u64> = {
        let mut s = vec![0u64, 1, upper.saturating_sub(1), upper, upper / 2];
        for _ in 0..10 {
            s.push(run.rng.below(upper + 1));
        }
        s.sort();
        s.dedup();
        s
    };
    for o in &interesting {
        for n in [1u32, 2, 3, 7, (upper / 2) as u32 + 1, upper as u32 + 1] {
            v.push((*o, n));
        }
        let n = run.rng.below(upper + 1) as u32 + 1;
        v.push((*o, n));
    }
    v
}

fn expiry_of(ticks: u64) -> IggyExpiry {
    if ticks == 0 {
        IggyExpiry::NeverExpire
    } else {
        IggyExpiry::ExpireDuration(IggyDuration::new(std::time::Duration::from_micros(
            ticks * srv::TICK_MICROS,
        )))
    }
}

fn make_message(run: &mut Run, m: u64, id_class: u64) -> (Message, Sent) {
    let scn = run.scn;
    let mut payload = format!("<<M{:06}>>", m).into_bytes();
    let target = if scn.payload_len > 0 {
        scn.payload_len
    } else {
        payload.len() + run.rng.below(40) as usize
    };
    while payload.len() < target {
        payload.push(b'a' + (run.rng.below(26) as u8));
    }
    let headers = if scn.payload_len == 0 && run.rng.chance(1, 3) {
        let mut h = HashMap::new();
        let nh = 1 + run.rng.below(3);
        for j in 0..nh {
            let key = HeaderKey::new(&format!("k{}-{}", j, run.rng.below(1000))).unwrap();
            let val = match run.rng.below(6) {
                0 => HeaderValue::from_str(&format!("v{}", run.rng.next())).unwrap(),
                1 => HeaderValue::from_uint64(run.rng.next()).unwrap(),
                2 => HeaderValue::from_bool(run.rng.chance(1, 2)).unwrap(),
                3 => HeaderValue::from_int32(run.rng.next() as i32).unwrap(),
                4 => HeaderValue::from_raw(&run.rng.next().to_le_bytes()).unwrap(),
                _ => HeaderValue::from_int128(run.rng.next() as i128 - 5).unwrap(),
            };
            h.insert(key, val);
        }
        Some(h)
    } else {
        None
    };
    // id class 0: server-assigned id; class k>0: the fixed id 7000+k (repeats are what the deduplicator sees)
    let id: u128 = if id_class == 0 { 0 } else { 7000 + id_class as u128 };
    let payload = Bytes::from(payload);
    let msg = Message::new(if id == 0 { None } else { Some(id) }, payload.clone(), headers.clone());
    let sent = Sent {
        id_class,
        id,
        payload,
        headers,
        t_lo: 0,
        t_hi: 0,
        first_id: None,
        first_ts: None,
        first_checksum: None,
    };
    (msg, sent)
}

/// A polled message becomes `[offset, m]`: m = number of the sent message it equals in every field,
/// or a negative code when it equals none (-1 unknown payload, -2 payload, -3 id, -4 headers, -5 checksum, -6 timestamp).
fn map_msgs(run: &mut Run, p: u32, msgs: &[PolledMessage]) -> Value {
    let enc = run.scn.cfg.encryption;
    let mut out = vec![];
    for pm in msgs {
        let mut m: i64 = -1;
        if pm.payload.len() >= 11 && &pm.payload[0..3] == b"<<M" {
            if let Ok(s) = std::str::from_utf8(&pm.payload[3..9]) {
                if let Ok(n) = s.parse::<u64>() {
                    if let Some(sent) = run.sent.get_mut(&n) {
                        m = n as i64;
                        if sent.payload != pm.payload {
                            m = -2;
                        } else if (sent.id != 0 && sent.id != pm.id)
                            || (sent.id == 0 && (pm.id == 0 || *sent.first_id.get_or_insert(pm.id) != pm.id))
                        {
                            m = -3;
                        } else if sent.headers != pm.headers {
                            m = -4;
                        } else if *sent.first_checksum.get_or_insert(pm.checksum) != pm.checksum
                            || (!enc && pm.checksum != iggy::utils::checksum::calculate(&pm.payload))
                        {
                            m = -5;
                        } else if *sent.first_ts.get_or_insert(pm.timestamp) != pm.timestamp
                            || pm.timestamp < sent.t_lo
                            || pm.timestamp > sent.t_hi
                        {
                            m = -6;
                        }
                        let _ = sent.id_class;
                    }
                }
            }
        }
        if m > 0 && (p as usize) < run.seen_ts.len() {
            run.seen_ts[p as usize].insert(pm.offset, pm.timestamp);
        }
        out.push(json!([pm.offset, m]));
    }
    json!(out)
}
