//! Topic lens: partition selection (C17), size-limit gate and oldest-segment clean-up (C15), counters (C16).
//! One main topic (stream 1 / topic 1) plus a sibling topic and a sibling stream for the sums.
use crate::srv::{self, Incarnation, ScnConfig};
use crate::util::{res_of, Rng, TraceWriter};
use bytes::Bytes;
use iggy::client::{MessageClient, PartitionClient, StreamClient, SystemClient, TopicClient};
use iggy::compression::compression_algorithm::CompressionAlgorithm;
use iggy::consumer::Consumer;
use iggy::identifier::Identifier;
use iggy::locking::IggySharedMutFn;
use iggy::messages::poll_messages::PollingStrategy;
use iggy::messages::send_messages::{Message, Partitioning};
use iggy::tcp::client::TcpClient;
use iggy::utils::byte_size::IggyByteSize;
use iggy::utils::duration::IggyDuration;
use iggy::utils::expiry::IggyExpiry;
use iggy::utils::topic_size::MaxTopicSize;
use serde::Deserialize;
use serde_json::{json, Value};
use server::channels::commands::maintain_messages::{MaintainMessagesCommand, MaintainMessagesExecutor, MessagesMaintainer};
use server::channels::server_command::ServerCommand;
use server::configs::server::MessagesMaintenanceConfig;
use std::str::FromStr;

const S1: &str = "vstream";
const T1: &str = "vtopic";
const T2: &str = "vtopic-two";
const S2: &str = "vstream-two";

#[derive(Debug, Clone, Deserialize)]
pub struct Scenario {
    pub id: String,
    #[serde(default)]
    pub cfg: ScnConfig,
    #[serde(default)]
    pub seed: u64,
    #[serde(default = "one")]
    pub parts: u32,
    /// topic size limit in bytes (0 = unlimited)
    #[serde(default)]
    pub limit_bytes: u64,
    #[serde(default = "sixteen")]
    pub payload_len: usize,
    pub steps: Vec<Value>,
}
fn one() -> u32 {
    1
}
fn sixteen() -> usize {
    16
}

pub struct TopicLens {
    maintain_cmd: MaintainMessagesCommand,
    pub work: String,
}

struct Run<'a> {
    scn: &'a Scenario,
    dir: String,
    inc: Option<Incarnation>,
    client: Option<TcpClient>,
    next_m: u64,
    sent_total: u64,
    rng: Rng,
}

fn obtain_maintain_command() -> MaintainMessagesCommand {
    let rt = tokio::runtime::Builder::new_current_thread().enable_all().build().unwrap();
    let cmd = rt.block_on(async {
        let (tx, rx) = flume::unbounded();
        let cfg = MessagesMaintenanceConfig {
            archiver_enabled: false,
            cleaner_enabled: true,
            interval: IggyDuration::from_str("1ms").unwrap(),
        };
        MessagesMaintainer::new(&cfg, tx).start();
        rx.recv_async().await.expect("maintain command")
    });
    rt.shutdown_background();
    cmd
}

fn limit_of(bytes: u64) -> MaxTopicSize {
    if bytes == 0 {
        MaxTopicSize::Unlimited
    } else {
        MaxTopicSize::Custom(IggyByteSize::from(bytes))
    }
}

impl TopicLens {
    pub fn new(work: &str) -> Self {
        TopicLens { maintain_cmd: obtain_maintain_command(), work: work.to_string() }
    }

    pub fn run_scenario(&self, idx: usize, scn: &Scenario, out: &mut TraceWriter) -> Result<(), String> {
        let dir = format!("{}/d{}", self.work, idx);
        let _ = std::fs::remove_dir_all(&dir);
        std::fs::create_dir_all(&dir).map_err(|e| e.to_string())?;
        srv::set_tick(0);
        let mut run = Run { scn, dir: dir.clone(), inc: None, client: None, next_m: 1, sent_total: 0, rng: Rng(scn.seed ^ 0x70) };
        let r = self.run_inner(idx, &mut run, out);
        if let Some(inc) = run.inc.take() {
            drop(run.client.take());
            let _ = srv::stop(inc, false);
        }
        let _ = std::fs::remove_dir_all(&dir);
        r
    }

    fn start_inc(&self, run: &mut Run) -> Result<(), String> {
        let config = srv::build_config(&run.dir, &run.scn.cfg, srv::ENC_KEY_A);
        let inc = srv::start(config, &run.scn.cfg, false)?;
        let client = inc.rt.block_on(srv::tcp_root(inc.tcp))?;
        run.inc = Some(inc);
        run.client = Some(client);
        Ok(())
    }

    fn run_inner(&self, idx: usize, run: &mut Run, out: &mut TraceWriter) -> Result<(), String> {
        let scn = run.scn;
        self.start_inc(run)?;
        let seg_bytes = if scn.cfg.segment_bytes == 0 { 1_000_000_000 } else { scn.cfg.segment_bytes };
        run.inc.as_ref().unwrap().rt.block_on(async {
            let c = run.client.as_ref().unwrap();
            c.create_stream(S1, Some(1)).await.map_err(|e| e.to_string())?;
            c.create_topic(&Identifier::numeric(1).unwrap(), T1, scn.parts, CompressionAlgorithm::None, None, Some(1),
                IggyExpiry::NeverExpire, limit_of(scn.limit_bytes)).await.map_err(|e| format!("create topic: {e}"))?;
            c.create_topic(&Identifier::numeric(1).unwrap(), T2, 1, CompressionAlgorithm::None, None, Some(2),
                IggyExpiry::NeverExpire, MaxTopicSize::Unlimited).await.map_err(|e| e.to_string())?;
            c.create_stream(S2, Some(2)).await.map_err(|e| e.to_string())?;
            c.create_topic(&Identifier::numeric(2).unwrap(), T1, 1, CompressionAlgorithm::None, None, Some(1),
                IggyExpiry::NeverExpire, MaxTopicSize::Unlimited).await.map_err(|e| e.to_string())?;
            Ok::<(), String>(())
        })?;
        out.emit(&json!({"ev":"reset","sc":idx,"id":scn.id,"cfg":serde_json::to_value(&scn.cfg).unwrap(),
            "parts":scn.parts,"limit":scn.limit_bytes,"del_oldest":scn.cfg.delete_oldest,"seg_bytes":seg_bytes}));
        for (i, step) in scn.steps.iter().enumerate() {
            let mut ev = self.exec_step(run, step)?;
            {
                let o = ev.as_object_mut().unwrap();
                o.insert("sc".into(), json!(idx));
                o.insert("i".into(), json!(i + 1));
            }
            if ev.get("fatal").is_some() {
                out.emit(&ev);
                break;
            }
            match self.observe(run) {
                Ok(obs) => {
                    ev.as_object_mut().unwrap().insert("obs".into(), obs);
                    out.emit(&ev);
                }
                Err(e) => {
                    ev.as_object_mut().unwrap().insert("fatal".into(), json!(format!("observe failed: {e}")));
                    out.emit(&ev);
                    break;
                }
            }
        }
        Ok(())
    }

    fn reconnect_if_closed(&self, run: &mut Run, res: &str) {
        if res == "closed" {
            if let Some(inc) = run.inc.as_ref() {
                if let Ok(c) = inc.rt.block_on(srv::tcp_root(inc.tcp)) {
                    run.client = Some(c);
                }
            }
        }
    }

    fn make_msgs(&self, run: &mut Run, k: u64) -> (Vec<Message>, Vec<u64>) {
        let mut msgs = vec![];
        let mut ms = vec![];
        for _ in 0..k {
            let m = run.next_m;
            run.next_m += 1;
            let mut payload = format!("<<M{:06}>>", m).into_bytes();
            while payload.len() < run.scn.payload_len {
                payload.push(b'a' + (run.rng.below(26) as u8));
            }
            msgs.push(Message::new(None, Bytes::from(payload), None));
            ms.push(m);
        }
        (msgs, ms)
    }

    fn exec_step(&self, run: &mut Run, step: &Value) -> Result<Value, String> {
        let op = step["op"].as_str().ok_or("step without op")?.to_string();
        let s1 = Identifier::numeric(1).unwrap();
        let t1 = Identifier::numeric(1).unwrap();
        let ev = match op.as_str() {
            "send" => {
                let kind = step["kind"].as_str().unwrap_or("balanced").to_string();
                let k = step["k"].as_u64().unwrap_or(1);
                let (mut msgs, ms) = self.make_msgs(run, k);
                let (partitioning, v) = match kind.as_str() {
                    "id" => {
                        let v = step["v"].as_u64().unwrap_or(1) as u32;
                        (Partitioning::partition_id(v), json!(v))
                    }
                    "key" => {
                        let key = step["key"].as_str().unwrap_or("k").to_string();
                        (Partitioning::messages_key_str(&key).map_err(|e| e.to_string())?, json!(key))
                    }
                    _ => (Partitioning::balanced(), json!(0)),
                };
                let r = run.inc.as_ref().unwrap().rt.block_on(async {
                    run.client.as_ref().unwrap().send_messages(&s1, &t1, &partitioning, &mut msgs).await
                });
                run.sent_total += k;
                let res = res_of(&r);
                self.reconnect_if_closed(run, &res);
                json!({"ev":"send","kind":kind,"v":v,"ms":ms,"res":res})
            }
            "send_other" => {
                let which = step["which"].as_str().unwrap_or("t2").to_string();
                let k = step["k"].as_u64().unwrap_or(1);
                let (mut msgs, _) = self.make_msgs(run, k);
                let (s, t) = if which == "t2" { (1u32, 2u32) } else { (2, 1) };
                let r = run.inc.as_ref().unwrap().rt.block_on(async {
                    run.client.as_ref().unwrap().send_messages(&Identifier::numeric(s).unwrap(), &Identifier::numeric(t).unwrap(),
                        &Partitioning::partition_id(1), &mut msgs).await
                });
                let res = res_of(&r);
                json!({"ev":"send_other","which":which,"k":k,"res":res})
            }
            "add_parts" | "del_parts" => {
                let k = step["k"].as_u64().unwrap_or(1) as u32;
                let r = run.inc.as_ref().unwrap().rt.block_on(async {
                    if op == "add_parts" {
                        run.client.as_ref().unwrap().create_partitions(&s1, &t1, k).await
                    } else {
                        run.client.as_ref().unwrap().delete_partitions(&s1, &t1, k).await
                    }
                });
                let res = res_of(&r);
                self.reconnect_if_closed(run, &res);
                json!({"ev":op,"k":k,"res":res})
            }
            "set_limit" => {
                let bytes = step["bytes"].as_u64().unwrap_or(0);
                let r = run.inc.as_ref().unwrap().rt.block_on(async {
                    run.client.as_ref().unwrap().update_topic(&s1, &t1, T1, CompressionAlgorithm::None, None,
                        IggyExpiry::NeverExpire, limit_of(bytes)).await
                });
                let res = res_of(&r);
                self.reconnect_if_closed(run, &res);
                json!({"ev":"set_limit","bytes":bytes,"res":res})
            }
            "maintain" => {
                let system = run.inc.as_ref().unwrap().system.clone();
                let cmd = self.maintain_cmd.clone();
                let h = run.inc.as_ref().unwrap().rt.spawn(async move {
                    let mut ex = MaintainMessagesExecutor;
                    ex.execute(&system, cmd).await;
                });
                let res = match run.inc.as_ref().unwrap().rt.block_on(h) {
                    Ok(_) => "ok".to_string(),
                    Err(_) => "panic".to_string(),
                };
                json!({"ev":"maintain","res":res})
            }
            "flush_all" => {
                let system = run.inc.as_ref().unwrap().system.clone();
                let h = run.inc.as_ref().unwrap().rt.spawn(async move { system.read().await.persist_messages().await.map(|_| ()) });
                let res = match run.inc.as_ref().unwrap().rt.block_on(h) {
                    Ok(r) => res_of(&r),
                    Err(_) => "panic".to_string(),
                };
                json!({"ev":"flush_all","res":res})
            }
            "purge" => {
                let r = run.inc.as_ref().unwrap().rt.block_on(async { run.client.as_ref().unwrap().purge_topic(&s1, &t1).await });
                let res = res_of(&r);
                self.reconnect_if_closed(run, &res);
                json!({"ev":"purge","res":res})
            }
            "purge_stream" => {
                let r = run.inc.as_ref().unwrap().rt.block_on(async { run.client.as_ref().unwrap().purge_stream(&s1).await });
                let res = res_of(&r);
                self.reconnect_if_closed(run, &res);
                json!({"ev":"purge_stream","res":res})
            }
            "del_other" => {
                let which = step["which"].as_str().unwrap_or("t2").to_string();
                let r = run.inc.as_ref().unwrap().rt.block_on(async {
                    if which == "t2" {
                        run.client.as_ref().unwrap().delete_topic(&s1, &Identifier::numeric(2).unwrap()).await
                    } else {
                        run.client.as_ref().unwrap().delete_stream(&Identifier::numeric(2).unwrap()).await
                    }
                });
                let res = res_of(&r);
                json!({"ev":"del_other","which":which,"res":res})
            }
            "restart" => {
                let mut res = "ok".to_string();
                drop(run.client.take());
                let inc = run.inc.take().unwrap();
                if let Err(e) = srv::stop(inc, true) {
                    res = if e.starts_with("panic") { "panic".into() } else { format!("err:{e}") };
                }
                if let Err(e) = self.start_inc(run) {
                    return Ok(json!({"ev":"restart","res":res,"fatal":format!("start failed: {e}")}));
                }
                json!({"ev":"restart","res":res})
            }
            other => return Err(format!("unknown op {other}")),
        };
        Ok(ev)
    }

    fn observe(&self, run: &mut Run) -> Result<Value, String> {
        let inc = run.inc.as_ref().unwrap();
        let system = inc.system.clone();
        let dir = run.dir.clone();
        // projection of the internals: segment lists of the main topic, totals over everything
        let proj = inc.rt.block_on(async {
            let sys = system.read().await;
            let mut tot_segments = 0u64;
            let mut tot_partitions = 0u64;
            let mut tot_topics = 0u64;
            let mut tot_streams = 0u64;
            let mut main = vec![];
            for stream in sys.get_streams() {
                tot_streams += 1;
                for topic in stream.get_topics() {
                    tot_topics += 1;
                    let mut parts: Vec<_> = topic.get_partitions();
                    tot_partitions += parts.len() as u64;
                    let mut plist = vec![];
                    for part in parts.drain(..) {
                        let part = part.read().await;
                        tot_segments += part.get_segments().len() as u64;
                        if stream.stream_id == 1 && topic.topic_id == 1 {
                            let segs: Vec<Value> = part
                                .get_segments()
                                .iter()
                                .map(|s| json!({"start": s.start_offset, "closed": s.is_closed, "bytes": s.size_bytes.as_bytes_u64()}))
                                .collect();
                            let mut disk = 0u64;
                            for (path, len) in crate::util::dir_size_files(&part.partition_path) {
                                if path.ends_with(".log") {
                                    disk += len;
                                }
                            }
                            plist.push((part.partition_id, json!({"id": part.partition_id, "segs": segs,
                                "unsaved": part.unsaved_messages_count, "disk": disk})));
                        }
                    }
                    if stream.stream_id == 1 && topic.topic_id == 1 {
                        plist.sort_by_key(|x| x.0);
                        main = plist.into_iter().map(|x| x.1).collect();
                    }
                }
            }
            let _ = dir;
            json!({"parts": main, "segments": tot_segments, "partitions": tot_partitions, "topics": tot_topics, "streams": tot_streams})
        });
        let c = run.client.as_ref().unwrap();
        let big = (run.sent_total + 4) as u32;
        let obsc = Consumer::new(Identifier::numeric(9999).unwrap());
        let s1 = Identifier::numeric(1).unwrap();
        let t1 = Identifier::numeric(1).unwrap();
        let (topic, t2, st1, st2, stats) = inc.rt.block_on(async {
            (
                c.get_topic(&s1, &t1).await,
                c.get_topic(&s1, &Identifier::numeric(2).unwrap()).await,
                c.get_stream(&s1).await,
                c.get_stream(&Identifier::numeric(2).unwrap()).await,
                c.get_stats().await,
            )
        });
        let topic = topic.map_err(|e| format!("get_topic: {e}"))?.ok_or("main topic missing")?;
        let mut parts = vec![];
        let mut ids: Vec<u32> = topic.partitions.iter().map(|p| p.id).collect();
        ids.sort();
        for pid in &ids {
            let pinfo = topic.partitions.iter().find(|p| p.id == *pid).unwrap();
            let r = inc.rt.block_on(async {
                c.poll_messages(&s1, &t1, Some(*pid), &obsc, &PollingStrategy::offset(0), big, false).await
            });
            let (read, cur, err) = match r {
                Ok(pm) => {
                    let mut v = vec![];
                    for m in &pm.messages {
                        let mut mm: i64 = -1;
                        if m.payload.len() >= 11 && &m.payload[0..3] == b"<<M" {
                            if let Ok(s) = std::str::from_utf8(&m.payload[3..9]) {
                                mm = s.parse::<i64>().unwrap_or(-1);
                            }
                        }
                        v.push(json!([m.offset, mm]));
                    }
                    (json!(v), pm.current_offset as i64, json!(""))
                }
                Err(e) => (json!([]), -1, json!(crate::util::err_class(&e))),
            };
            parts.push(json!({"id": pid, "read": read, "cur": cur, "count": pinfo.messages_count, "size": pinfo.size.as_bytes_u64(),
                "nsegs": pinfo.segments_count, "tcur": pinfo.current_offset, "err": err}));
        }
        let opt_topic = |t: &Result<Option<iggy::models::topic::TopicDetails>, iggy::error::IggyError>| match t {
            Ok(Some(t)) => json!({"count": t.messages_count, "size": t.size.as_bytes_u64(), "parts": t.partitions_count}),
            _ => json!({"count": -1, "size": -1, "parts": -1}),
        };
        let opt_stream = |s: &Result<Option<iggy::models::stream::StreamDetails>, iggy::error::IggyError>| match s {
            Ok(Some(s)) => json!({"count": s.messages_count, "size": s.size.as_bytes_u64(), "topics": s.topics_count,
                                   "tsum_count": s.topics.iter().fold(0u64, |a, t| a.wrapping_add(t.messages_count)),
                                   "tsum_size": s.topics.iter().fold(0u64, |a, t| a.wrapping_add(t.size.as_bytes_u64()))}),
            _ => json!({"count": -1, "size": -1, "topics": -1, "tsum_count": -1, "tsum_size": -1}),
        };
        let stats = match stats {
            Ok(s) => json!({"messages": s.messages_count, "size": s.messages_size_bytes.as_bytes_u64(), "streams": s.streams_count,
                            "topics": s.topics_count, "partitions": s.partitions_count, "segments": s.segments_count,
                            "groups": s.consumer_groups_count}),
            Err(e) => return Err(format!("get_stats: {e}")),
        };
        Ok(json!({"proj": proj, "parts": parts,
            "topic": {"count": topic.messages_count, "size": topic.size.as_bytes_u64(), "nparts": topic.partitions_count,
                      "limit": match topic.max_topic_size { MaxTopicSize::Custom(b) => b.as_bytes_u64() as i64, MaxTopicSize::Unlimited => 0, MaxTopicSize::ServerDefault => -1 }},
            "t2": opt_topic(&t2), "s1": opt_stream(&st1), "s2": opt_stream(&st2), "stats": stats}))
    }
}
