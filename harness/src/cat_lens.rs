//! Catalogue lens: administrative commands over TCP or HTTP (by id / by name, server- or client-chosen ids),
//! restarts; after every step the normalised answers of every get/list call, per-partition message counts,
//! the directory tree and the clients' group memberships are recorded (C05, C06, part of C13/C16).
use crate::srv::{self, Incarnation, ScnConfig};
use crate::util::{err_class, res_of, Rng, TraceWriter};
use bytes::Bytes;
use iggy::client::{Client, StreamClient, TopicClient};
use iggy::compression::compression_algorithm::CompressionAlgorithm;
use iggy::consumer::Consumer;
use iggy::error::IggyError;
use iggy::identifier::Identifier;
use iggy::messages::poll_messages::PollingStrategy;
use iggy::messages::send_messages::{Message, Partitioning};
use iggy::models::user_status::UserStatus;
use iggy::tcp::client::TcpClient;
use iggy::utils::expiry::IggyExpiry;
use iggy::utils::topic_size::MaxTopicSize;
use serde::Deserialize;
use serde_json::{json, Value};
use std::collections::BTreeSet;
use std::sync::Arc;

#[derive(Debug, Clone, Deserialize)]
pub struct Scenario {
    pub id: String,
    #[serde(default)]
    pub cfg: ScnConfig,
    #[serde(default)]
    pub seed: u64,
    pub steps: Vec<Value>,
}

pub struct CatLens {
    pub work: String,
}

struct Run<'a> {
    scn: &'a Scenario,
    dir: String,
    inc: Option<Incarnation>,
    admin: Option<Box<dyn Client>>,
    members: Vec<Option<(TcpClient, u32)>>, // index 1..=2: (client, server-side client id)
    next_m: u64,
    rng: Rng,
    tick: u64,
}

/// The command's field is private: the real verifier hands us one (allowed silence: 1.2 x 100 s - far below one clock tick of 1000 s, far above the time between a ping and the verification even on a loaded machine).
fn obtain_heartbeat_command() -> server::channels::commands::verify_heartbeats::VerifyHeartbeatsCommand {
    use std::str::FromStr;
    let rt = tokio::runtime::Builder::new_current_thread().enable_all().build().unwrap();
    let cmd = rt.block_on(async {
        let (tx, rx) = flume::unbounded();
        let cfg = server::configs::server::HeartbeatConfig { enabled: true, interval: iggy::utils::duration::IggyDuration::from_str("100s").unwrap() };
        server::channels::commands::verify_heartbeats::VerifyHeartbeats::new(&cfg, tx).start();
        rx.recv_async().await.expect("heartbeat command")
    });
    rt.shutdown_background();
    cmd
}

fn settings_digest(comp: CompressionAlgorithm, exp: IggyExpiry, maxs: MaxTopicSize, repl: u8) -> String {
    format!("{comp}|{exp}|{maxs}|{repl}")
}

/// Topic settings drawn from the scenario's seed, with the values the get calls must show afterwards: the server default is
/// resolved through the server's configuration, an absent replication factor is 1.
fn topic_settings(rng: &mut Rng, config: &server::configs::system::SystemConfig) -> (CompressionAlgorithm, Option<u8>, IggyExpiry, MaxTopicSize, String) {
    use std::str::FromStr;
    let comp = if rng.chance(1, 3) { CompressionAlgorithm::Gzip } else { CompressionAlgorithm::None };
    let repl = match rng.below(3) { 0 => None, 1 => Some(1u8), _ => Some(3u8) };
    let exp = match rng.below(3) {
        0 => IggyExpiry::NeverExpire,
        1 => IggyExpiry::ServerDefault,
        _ => IggyExpiry::ExpireDuration(iggy::utils::duration::IggyDuration::from_str("1000h").unwrap()),
    };
    let maxs = match rng.below(3) {
        0 => MaxTopicSize::ServerDefault,
        1 => MaxTopicSize::Unlimited,
        _ => MaxTopicSize::Custom(iggy::utils::byte_size::IggyByteSize::from_str("3 GB").unwrap()),
    };
    let (def_exp, def_max) = (config.segment.message_expiry, config.topic.max_size);
    let shown_exp = if matches!(exp, IggyExpiry::ServerDefault) { def_exp } else { exp };
    let shown_max = if matches!(maxs, MaxTopicSize::ServerDefault) { def_max } else { maxs };
    (comp, repl, exp, maxs, settings_digest(comp, shown_exp, shown_max, repl.unwrap_or(1)))
}

fn ident(r: &Value) -> Option<Identifier> {
    match r["by"].as_str() {
        Some("id") => Identifier::numeric(r["v"].as_u64().unwrap_or(0) as u32).ok(),
        Some("name") => Identifier::named(r["v"].as_str().unwrap_or("")).ok(),
        _ => None,
    }
}

impl CatLens {
    pub fn new(work: &str) -> Self {
        CatLens { work: work.to_string() }
    }

    pub fn run_scenario(&self, idx: usize, scn: &Scenario, out: &mut TraceWriter) -> Result<(), String> {
        let dir = format!("{}/d{}", self.work, idx);
        let _ = std::fs::remove_dir_all(&dir);
        std::fs::create_dir_all(&dir).map_err(|e| e.to_string())?;
        srv::set_tick(0);
        let mut run = Run {
            scn,
            dir: dir.clone(),
            inc: None,
            admin: None,
            members: vec![None, None, None],
            next_m: 1,
            rng: Rng(scn.seed ^ 0xca7),
            tick: 0,
        };
        let r = if scn.steps.first().map(|s| s["op"] == "race").unwrap_or(false) {
            self.run_race(idx, &mut run, out)
        } else {
            self.run_inner(idx, &mut run, out)
        };
        run.members.clear();
        drop(run.admin.take());
        if let Some(inc) = run.inc.take() {
            let _ = srv::stop(inc, false);
        }
        let _ = std::fs::remove_dir_all(&dir);
        r
    }

    /// Two clients at once (specs/IggyCatalogueMT.tla): client A creates an entity while client B purges it as soon as it
    /// exists; the schedule point at the entry of FileState::apply (guarded hook) holds A's journal entry back until B's has
    /// been appended - the interleaving the handlers' lock discipline must exclude. Both commands are acknowledged; the
    /// server is then restarted: it must start and show the same catalogue.
    fn run_race(&self, idx: usize, run: &mut Run, out: &mut TraceWriter) -> Result<(), String> {
        use std::sync::atomic::{AtomicBool, Ordering};
        let pair = run.scn.steps[0]["pair"].as_str().unwrap_or("topic").to_string();
        // (held back, the command that may overtake it): create/purge (the purge depends on the creation) and delete/re-create
        // (the re-creation must not be journalled before the deletion)
        let (create_code, purge_code) = match pair.as_str() {
            "stream" => (202u64, 205u64),
            "delete_create_topic" => (303u64, 302u64),
            "delete_create_stream" => (203u64, 202u64),
            _ => (302u64, 305u64),
        };
        self.start_inc(run)?;
        out.emit(&json!({"ev":"reset","sc":idx,"id":run.scn.id,"kind":"race"}));
        let inc = run.inc.as_ref().unwrap();
        let a = inc.rt.block_on(srv::tcp_root(inc.tcp))?;
        let b = inc.rt.block_on(srv::tcp_root(inc.tcp))?;
        let s1 = Identifier::numeric(1).unwrap();
        let t1 = Identifier::numeric(1).unwrap();
        if pair != "stream" {
            inc.rt.block_on(a.create_stream("race-stream", Some(1))).map_err(|e| e.to_string())?;
        }
        if pair == "delete_create_topic" {
            inc.rt.block_on(a.create_topic(&s1, "race-topic", 3, CompressionAlgorithm::None, None, Some(1), IggyExpiry::NeverExpire, MaxTopicSize::Unlimited)).map_err(|e| e.to_string())?;
        }
        let purge_entered = Arc::new(AtomicBool::new(false));
        let purge_done = Arc::new(AtomicBool::new(false));
        let create_released = Arc::new(AtomicBool::new(false));
        let forced = Arc::new(AtomicBool::new(false));
        {
            let (pe, pd, cr, fo) = (purge_entered.clone(), purge_done.clone(), create_released.clone(), forced.clone());
            server::verif::set_point_hook(Some(Arc::new(move |name, k| {
                let (pe, pd, cr, fo) = (pe.clone(), pd.clone(), cr.clone(), fo.clone());
                Box::pin(async move {
                    if name == "state.apply.enter" && k == purge_code {
                        pe.store(true, Ordering::SeqCst);
                    } else if name == "state.apply.appended" && pe.load(Ordering::SeqCst) && !cr.load(Ordering::SeqCst) {
                        pd.store(true, Ordering::SeqCst);
                    } else if name == "state.apply.enter" && k == create_code {
                        // hold the create's journal entry back (bounded: a lock discipline that excludes this is fine)
                        let t0 = std::time::Instant::now();
                        while !pd.load(Ordering::SeqCst) && t0.elapsed() < std::time::Duration::from_millis(1500) {
                            tokio::time::sleep(std::time::Duration::from_millis(1)).await;
                        }
                        fo.store(pd.load(Ordering::SeqCst), Ordering::SeqCst);
                        cr.store(true, Ordering::SeqCst);
                    }
                })
            })));
        }
        let (ra, rb) = inc.rt.block_on(async {
            let fa = async {
                match pair.as_str() {
                    "stream" => res_of(&a.create_stream("race-stream", Some(1)).await),
                    "delete_create_topic" => res_of(&a.delete_topic(&s1, &t1).await),
                    "delete_create_stream" => res_of(&a.delete_stream(&s1).await),
                    _ => res_of(&a.create_topic(&s1, "race-topic", 1, CompressionAlgorithm::None, None, Some(1), IggyExpiry::NeverExpire, MaxTopicSize::Unlimited).await),
                }
            };
            let fb = async {
                let mut last = String::new();
                // B starts a moment later (A's command is then in progress) and retries until its command is accepted
                tokio::time::sleep(std::time::Duration::from_micros(300)).await;
                for _ in 0..3000 {
                    let ok = match pair.as_str() {
                        "stream" => { let r = b.purge_stream(&s1).await; last = res_of(&r); r.is_ok() }
                        "delete_create_topic" => { let r = b.create_topic(&s1, "race-topic-2", 1, CompressionAlgorithm::None, None, Some(1), IggyExpiry::NeverExpire, MaxTopicSize::Unlimited).await; last = res_of(&r); r.is_ok() }
                        "delete_create_stream" => { let r = b.create_stream("race-stream-2", Some(1)).await; last = res_of(&r); r.is_ok() }
                        _ => { let r = b.purge_topic(&s1, &t1).await; last = res_of(&r); r.is_ok() }
                    };
                    if ok {
                        break;
                    }
                    tokio::time::sleep(std::time::Duration::from_micros(500)).await;
                }
                last
            };
            tokio::join!(fa, fb)
        });
        server::verif::set_point_hook(None);
        let view = |c: &TcpClient, rt: &tokio::runtime::Runtime| -> String {
            rt.block_on(async {
                let streams = c.get_streams().await.map(|v| v.iter().map(|s| format!("{}:{}:{}", s.id, s.name, s.topics_count)).collect::<Vec<_>>());
                let topics = c.get_topics(&Identifier::numeric(1).unwrap()).await.map(|v| v.iter().map(|t| format!("{}:{}:{}", t.id, t.name, t.partitions_count)).collect::<Vec<_>>());
                format!("{streams:?}|{topics:?}")
            })
        };
        let before = view(&a, &inc.rt);
        drop(a);
        drop(b);
        run.members.clear();
        run.members = vec![None, None, None];
        drop(run.admin.take());
        let inc = run.inc.take().unwrap();
        let _ = srv::stop(inc, true);
        let (restart, same) = match self.start_inc(run) {
            Err(e) => (format!("failed: {e}"), false),
            Ok(()) => {
                let inc = run.inc.as_ref().unwrap();
                let c = inc.rt.block_on(srv::tcp_root(inc.tcp))?;
                let after = view(&c, &inc.rt);
                ("ok".to_string(), after == before)
            }
        };
        out.emit(&json!({"ev":"race","sc":idx,"i":1,"pair":pair,"acks":[ra, rb],"forced":forced.load(Ordering::SeqCst),"restart":restart,"same":same,"view":before}));
        Ok(())
    }

    fn connect_all(&self, run: &mut Run) -> Result<(), String> {
        let inc = run.inc.as_ref().unwrap();
        let admin: Box<dyn Client> = if run.scn.cfg.transport == "http" {
            Box::new(inc.rt.block_on(srv::http_root(inc.http.unwrap()))?)
        } else if run.scn.cfg.transport == "quic" {
            Box::new(inc.rt.block_on(srv::quic_root(inc.quic.unwrap()))?)
        } else {
            Box::new(inc.rt.block_on(srv::tcp_root(inc.tcp))?)
        };
        run.admin = Some(admin);
        for c in 1..=2usize {
            let cl = inc.rt.block_on(srv::tcp_root(inc.tcp))?;
            let me = inc
                .rt
                .block_on(async { iggy::client::SystemClient::get_me(&cl).await })
                .map_err(|e| format!("get_me: {e}"))?;
            run.members[c] = Some((cl, me.client_id));
        }
        Ok(())
    }

    fn start_inc(&self, run: &mut Run) -> Result<(), String> {
        let config = srv::build_config(&run.dir, &run.scn.cfg, srv::ENC_KEY_A);
        let inc = srv::start(config, &run.scn.cfg, run.scn.cfg.transport == "http")?;
        run.inc = Some(inc);
        self.connect_all(run)
    }

    fn run_inner(&self, idx: usize, run: &mut Run, out: &mut TraceWriter) -> Result<(), String> {
        let scn = run.scn;
        self.start_inc(run)?;
        out.emit(&json!({"ev":"reset","sc":idx,"id":scn.id,"cfg":serde_json::to_value(&scn.cfg).unwrap()}));
        for (i, step) in scn.steps.iter().enumerate() {
            let mut ev = self.exec_step(run, step)?;
            {
                let o = ev.as_object_mut().unwrap();
                o.insert("sc".into(), json!(idx));
                o.insert("i".into(), json!(i + 1));
            }
            if ev.get("fatal").is_some() {
                out.emit(&ev);
                break;
            }
            match self.observe(run) {
                Ok(obs) => {
                    ev.as_object_mut().unwrap().insert("obs".into(), obs);
                    out.emit(&ev);
                }
                Err(e) => {
                    ev.as_object_mut().unwrap().insert("fatal".into(), json!(format!("observe failed: {e}")));
                    out.emit(&ev);
                    break;
                }
            }
        }
        Ok(())
    }

    fn after(&self, run: &mut Run, res: &str) {
        // a dead admin connection (server task panicked) is replaced so that the scenario can go on
        if res == "closed" && run.scn.cfg.transport != "http" {
            let inc = run.inc.as_ref().unwrap();
            if let Ok(c) = inc.rt.block_on(srv::tcp_root(inc.tcp)) {
                run.admin = Some(Box::new(c));
            }
        }
    }

    fn exec_step(&self, run: &mut Run, step: &Value) -> Result<Value, String> {
        let op = step["op"].as_str().ok_or("step without op")?.to_string();
        let mut ev = step.clone();
        {
            let o = ev.as_object_mut().unwrap();
            o.remove("op");
            o.insert("ev".into(), json!(op));
        }
        let sref = ident(&step["s"]);
        let tref = ident(&step["t"]);
        let name = step["name"].as_str().unwrap_or("").to_string();
        let id = step["id"].as_u64().unwrap_or(0) as u32;
        let idopt = if id == 0 { None } else { Some(id) };
        macro_rules! need {
            ($x:expr) => {
                match $x {
                    Some(v) => v,
                    None => return Err(format!("bad reference in step {step}")),
                }
            };
        }
        let mut settings_sent: Option<String> = None;
        let sysconf = srv::build_config(&run.dir, &run.scn.cfg, srv::ENC_KEY_A);
        let (res, rid): (String, u32) = {
            let inc = run.inc.as_ref().unwrap();
            let a = run.admin.as_ref().unwrap();
            match op.as_str() {
                "create_stream" => {
                    let r = inc.rt.block_on(a.create_stream(&name, idopt));
                    (res_of(&r), r.map(|d| d.id).unwrap_or(0))
                }
                "update_stream" => (res_of(&inc.rt.block_on(a.update_stream(&need!(sref), &name))), 0),
                "delete_stream" => (res_of(&inc.rt.block_on(a.delete_stream(&need!(sref)))), 0),
                "purge_stream" => (res_of(&inc.rt.block_on(a.purge_stream(&need!(sref)))), 0),
                "create_topic" => {
                    let parts = step["parts"].as_u64().unwrap_or(1) as u32;
                    let (comp, repl, exp, maxs, digest) = topic_settings(&mut run.rng, &sysconf);
                    settings_sent = Some(digest);
                    let r = inc.rt.block_on(a.create_topic(&need!(sref), &name, parts, comp, repl, idopt, exp, maxs));
                    (res_of(&r), r.map(|d| d.id).unwrap_or(0))
                }
                "update_topic" => {
                    let (comp, repl, exp, maxs, digest) = topic_settings(&mut run.rng, &sysconf);
                    settings_sent = Some(digest);
                    (res_of(&inc.rt.block_on(a.update_topic(&need!(sref), &need!(tref), &name, comp, repl, exp, maxs))), 0)
                }
                "delete_topic" => (res_of(&inc.rt.block_on(a.delete_topic(&need!(sref), &need!(tref)))), 0),
                "purge_topic" => (res_of(&inc.rt.block_on(a.purge_topic(&need!(sref), &need!(tref)))), 0),
                "create_partitions" | "delete_partitions" => {
                    let k = step["k"].as_u64().unwrap_or(1) as u32;
                    let r = if op == "create_partitions" {
                        inc.rt.block_on(a.create_partitions(&need!(sref), &need!(tref), k))
                    } else {
                        inc.rt.block_on(a.delete_partitions(&need!(sref), &need!(tref), k))
                    };
                    (res_of(&r), 0)
                }
                "create_group" => {
                    let r = inc.rt.block_on(a.create_consumer_group(&need!(sref), &need!(tref), &name, idopt));
                    (res_of(&r), r.map(|d| d.id).unwrap_or(0))
                }
                "delete_group" => (
                    res_of(&inc.rt.block_on(a.delete_consumer_group(&need!(sref), &need!(tref), &need!(ident(&step["g"]))))),
                    0,
                ),
                "join" | "leave" => {
                    let c = step["c"].as_u64().unwrap_or(1) as usize;
                    let (cl, _) = run.members[c].as_ref().ok_or("no such member client")?;
                    let g = need!(ident(&step["g"]));
                    let r = if op == "join" {
                        inc.rt.block_on(iggy::client::ConsumerGroupClient::join_consumer_group(cl, &need!(sref), &need!(tref), &g))
                    } else {
                        inc.rt.block_on(iggy::client::ConsumerGroupClient::leave_consumer_group(cl, &need!(sref), &need!(tref), &g))
                    };
                    (res_of(&r), 0)
                }
                "send" => {
                    let k = step["k"].as_u64().unwrap_or(1);
                    let p = step["p"].as_u64().unwrap_or(1) as u32;
                    let mut msgs = vec![];
                    for _ in 0..k {
                        let m = run.next_m;
                        run.next_m += 1;
                        let mut payload = format!("<<M{:06}>>", m).into_bytes();
                        for _ in 0..run.rng.below(30) {
                            payload.push(b'a' + (run.rng.below(26) as u8));
                        }
                        msgs.push(Message::new(None, Bytes::from(payload), None));
                    }
                    let r = inc.rt.block_on(a.send_messages(&need!(sref), &need!(tref), &Partitioning::partition_id(p), &mut msgs));
                    (res_of(&r), 0)
                }
                "create_user" => {
                    let active = step["active"].as_bool().unwrap_or(true);
                    let r = inc.rt.block_on(a.create_user(
                        &name,
                        step["pwd"].as_str().unwrap_or("secret-pwd"),
                        if active { UserStatus::Active } else { UserStatus::Inactive },
                        None,
                    ));
                    (res_of(&r), r.map(|d| d.id).unwrap_or(0))
                }
                "update_user" => {
                    let active = step["active"].as_bool().unwrap_or(true);
                    let r = inc.rt.block_on(a.update_user(
                        &need!(ident(&step["u"])),
                        Some(&name),
                        Some(if active { UserStatus::Active } else { UserStatus::Inactive }),
                    ));
                    (res_of(&r), 0)
                }
                "delete_user" => (res_of(&inc.rt.block_on(a.delete_user(&need!(ident(&step["u"]))))), 0),
                "disconnect" | "restart" | "expire" => ("ok".to_string(), 0),
                other => return Err(format!("unknown op {other}")),
            }
        };
        let mut res = res;
        match op.as_str() {
            "expire" => {
                // client c misses its heartbeat: the clock moves on (hook H1) beyond the allowed interval, every OTHER connection
                // pings, and the server's REAL heartbeat verification runs; c's connection is then replaced by a fresh one
                let c = step["c"].as_u64().unwrap_or(1) as usize;
                let inc = run.inc.as_ref().unwrap();
                run.tick += 1;
                srv::set_tick(run.tick);
                if let Some(a) = run.admin.as_ref() {
                    let _ = inc.rt.block_on(a.ping());
                }
                for (k, m) in run.members.iter().enumerate() {
                    if k != c {
                        if let Some((cl, _)) = m {
                            let _ = inc.rt.block_on(iggy::client::SystemClient::ping(cl));
                        }
                    }
                }
                let cmd = obtain_heartbeat_command();
                let system = inc.system.clone();
                let h = inc.rt.spawn(async move {
                    let mut ex = server::channels::commands::verify_heartbeats::VerifyHeartbeatsExecutor;
                    server::channels::server_command::ServerCommand::execute(&mut ex, &system, cmd).await;
                });
                if inc.rt.block_on(h).is_err() {
                    res = "panic".to_string();
                }
                if let Some((cl, _)) = run.members[c].take() {
                    drop(cl);
                    let ncl = inc.rt.block_on(srv::tcp_root(inc.tcp))?;
                    let me = inc
                        .rt
                        .block_on(async { iggy::client::SystemClient::get_me(&ncl).await })
                        .map_err(|e| format!("get_me: {e}"))?;
                    run.members[c] = Some((ncl, me.client_id));
                }
            }
            "disconnect" => {
                let c = step["c"].as_u64().unwrap_or(1) as usize;
                if let Some((cl, old_id)) = run.members[c].take() {
                    let inc = run.inc.as_ref().unwrap();
                    let _ = inc.rt.block_on(Client::disconnect(&cl));
                    drop(cl);
                    // wait until the server's connection task has observed the closed socket and removed the client (not a
                    // fixed pause: on a loaded machine that can take long; only a client that never goes away is a finding)
                    if let Some(a) = run.admin.as_ref() {
                        for _ in 0..4000 {
                            inc.rt.block_on(async { tokio::time::sleep(std::time::Duration::from_millis(2)).await });
                            if matches!(inc.rt.block_on(a.get_client(old_id)), Ok(None)) {
                                break;
                            }
                        }
                    }
                    let ncl = inc.rt.block_on(srv::tcp_root(inc.tcp))?;
                    let me = inc
                        .rt
                        .block_on(async { iggy::client::SystemClient::get_me(&ncl).await })
                        .map_err(|e| format!("get_me: {e}"))?;
                    run.members[c] = Some((ncl, me.client_id));
                }
            }
            "restart" => {
                for m in run.members.iter_mut() {
                    *m = None;
                }
                drop(run.admin.take());
                let inc = run.inc.take().unwrap();
                if let Err(e) = srv::stop(inc, true) {
                    res = if e.starts_with("panic") { "panic".into() } else { format!("err:{e}") };
                }
                if let Err(e) = self.start_inc(run) {
                    let o = ev.as_object_mut().unwrap();
                    o.insert("res".into(), json!(res));
                    o.insert("fatal".into(), json!(format!("start failed: {e}")));
                    return Ok(ev);
                }
            }
            _ => {}
        }
        self.after(run, &res);
        let o = ev.as_object_mut().unwrap();
        o.insert("res".into(), json!(res));
        o.insert("rid".into(), json!(rid));
        if let Some(d) = settings_sent {
            o.insert("set".into(), json!(d));
        }
        Ok(ev)
    }

    fn observe(&self, run: &mut Run) -> Result<Value, String> {
        let inc = run.inc.as_ref().unwrap();
        let a = run.admin.as_ref().unwrap();
        let rt = &inc.rt;
        let mut incons: Vec<String> = vec![];
        let mut s_out = vec![];
        let mut t_out = vec![];
        let mut tset_out = vec![];
        let mut size_incons: Vec<String> = vec![];
        let mut g_out = vec![];
        let mut cnt_out = vec![];
        let obsc = Consumer::new(Identifier::numeric(9999).unwrap());
        let streams = rt.block_on(a.get_streams()).map_err(|e| format!("get_streams: {e}"))?;
        for s in &streams {
            s_out.push(json!([s.id, s.name]));
            let by_id = rt.block_on(a.get_stream(&Identifier::numeric(s.id).unwrap()));
            let by_name = rt.block_on(a.get_stream(&Identifier::named(&s.name).map_err(|e| e.to_string())?));
            let d = match (by_id, by_name) {
                (Ok(Some(d)), Ok(Some(n))) => {
                    if d.id != n.id || d.name != n.name || d.topics_count != n.topics_count {
                        incons.push(format!("stream {} by id and by name differ", s.id));
                    }
                    d
                }
                (x, y) => {
                    incons.push(format!("stream {} lookup: by id {:?} by name {:?}", s.id, x.map(|o| o.map(|d| d.id)), y.map(|o| o.map(|d| d.id))));
                    continue;
                }
            };
            if d.id != s.id || d.name != s.name || d.topics_count != s.topics_count || d.messages_count != s.messages_count
                || d.topics.len() as u32 != d.topics_count
            {
                incons.push(format!("stream {} list entry and details differ", s.id));
            }
            let sid = Identifier::numeric(s.id).unwrap();
            let topics = rt.block_on(a.get_topics(&sid)).map_err(|e| format!("get_topics: {e}"))?;
            let ids_a: BTreeSet<u32> = topics.iter().map(|t| t.id).collect();
            let ids_b: BTreeSet<u32> = d.topics.iter().map(|t| t.id).collect();
            if ids_a != ids_b {
                incons.push(format!("stream {}: get_topics and get_stream list different topics", s.id));
            }
            let mut stream_msgs = 0u64;
            for t in &topics {
                let by_id = rt.block_on(a.get_topic(&sid, &Identifier::numeric(t.id).unwrap()));
                let by_name = rt.block_on(a.get_topic(&Identifier::named(&s.name).unwrap(), &Identifier::named(&t.name).map_err(|e| e.to_string())?));
                let td = match (by_id, by_name) {
                    (Ok(Some(d)), Ok(Some(n))) => {
                        if d.id != n.id || d.name != n.name || d.partitions_count != n.partitions_count {
                            incons.push(format!("topic {}/{} by id and by name differ", s.id, t.id));
                        }
                        d
                    }
                    (x, y) => {
                        incons.push(format!("topic {}/{} lookup: by id {:?} by name {:?}", s.id, t.id, x.map(|o| o.map(|d| d.id)), y.map(|o| o.map(|d| d.id))));
                        continue;
                    }
                };
                if td.name != t.name || td.partitions_count != t.partitions_count || td.messages_count != t.messages_count
                    || td.partitions.len() as u32 != td.partitions_count
                {
                    incons.push(format!("topic {}/{} list entry and details differ", s.id, t.id));
                }
                t_out.push(json!([s.id, t.id, t.name, t.partitions_count]));
                tset_out.push(json!([s.id, t.id, settings_digest(td.compression_algorithm, td.message_expiry, td.max_topic_size, td.replication_factor)]));
                if t.compression_algorithm != td.compression_algorithm || t.message_expiry != td.message_expiry || t.max_topic_size != td.max_topic_size
                    || t.replication_factor != td.replication_factor
                {
                    incons.push(format!("topic {}/{} list entry and details show different settings", s.id, t.id));
                }
                let tid = Identifier::numeric(t.id).unwrap();
                let mut topic_msgs = 0u64;
                let mut topic_bytes = 0u64;
                for p in &td.partitions {
                    let r = rt.block_on(a.poll_messages(&sid, &tid, Some(p.id), &obsc, &PollingStrategy::offset(0), 1000, false));
                    let n = match r {
                        Ok(pm) => {
                            let dense = pm.messages.iter().enumerate().all(|(i, m)| m.offset == i as u64);
                            if !dense {
                                incons.push(format!("partition {}/{}/{} read is not dense from 0", s.id, t.id, p.id));
                            }
                            pm.messages.len() as u64
                        }
                        Err(e) => {
                            incons.push(format!("partition {}/{}/{} poll: {}", s.id, t.id, p.id, err_class(&e)));
                            0
                        }
                    };
                    if n != p.messages_count {
                        incons.push(format!("partition {}/{}/{} reports {} messages, {} polled", s.id, t.id, p.id, p.messages_count, n));
                    }
                    topic_msgs += n;
                    cnt_out.push(json!([s.id, t.id, p.id, n]));
                    // (every send is saved at once in this lens: the size a partition reports is the size of its log files)
                    if run.scn.cfg.save_threshold == 1 {
                        let pdir = format!("{}/streams/{}/topics/{}/partitions/{}", run.dir, s.id, t.id, p.id);
                        let on_disk: u64 = std::fs::read_dir(&pdir).map(|it| it.filter_map(|e| e.ok())
                            .filter(|e| e.file_name().to_string_lossy().ends_with(".log"))
                            .map(|e| e.metadata().map(|m| m.len()).unwrap_or(0)).fold(0u64, |a, b| a.wrapping_add(b))).unwrap_or(0);
                        if p.size.as_bytes_u64() != on_disk {
                            size_incons.push(format!("partition {}/{}/{} reports {} bytes, {} in its log files", s.id, t.id, p.id, p.size.as_bytes_u64(), on_disk));
                        }
                        topic_bytes = topic_bytes.wrapping_add(on_disk);
                    }
                }
                if run.scn.cfg.save_threshold == 1 && td.size.as_bytes_u64() != topic_bytes {
                    size_incons.push(format!("topic {}/{} reports {} bytes, {} in its log files", s.id, t.id, td.size.as_bytes_u64(), topic_bytes));
                }
                if topic_msgs != td.messages_count {
                    incons.push(format!("topic {}/{} reports {} messages, partitions hold {}", s.id, t.id, td.messages_count, topic_msgs));
                }
                stream_msgs += topic_msgs;
                let groups = rt.block_on(a.get_consumer_groups(&sid, &tid)).map_err(|e| format!("get_consumer_groups: {e}"))?;
                for g in &groups {
                    g_out.push(json!([s.id, t.id, g.id, g.name]));
                    let by_id = rt.block_on(a.get_consumer_group(&sid, &tid, &Identifier::numeric(g.id).unwrap()));
                    let by_name = rt.block_on(a.get_consumer_group(&sid, &tid, &Identifier::named(&g.name).map_err(|e| e.to_string())?));
                    match (by_id, by_name) {
                        (Ok(Some(d)), Ok(Some(n))) => {
                            if d.id != n.id || d.name != n.name || d.id != g.id || d.name != g.name || d.partitions_count != td.partitions_count {
                                incons.push(format!("group {}/{}/{} lookups differ", s.id, t.id, g.id));
                            }
                        }
                        (x, y) => incons.push(format!("group {}/{}/{} lookup: by id {:?} by name {:?}", s.id, t.id, g.id, x.map(|o| o.map(|d| d.id)), y.map(|o| o.map(|d| d.id)))),
                    }
                }
            }
            if stream_msgs != d.messages_count {
                incons.push(format!("stream {} reports {} messages, topics hold {}", s.id, d.messages_count, stream_msgs));
            }
        }
        // the server statistics: exact entity counts (one segment per partition here: the segments are far larger than any scenario)
        let stats_out = match rt.block_on(a.get_stats()) {
            Ok(st) => json!([st.streams_count, st.topics_count, st.partitions_count, st.segments_count, st.consumer_groups_count, st.messages_count]),
            Err(e) => {
                incons.push(format!("get_stats: {}", err_class(&e)));
                json!([])
            }
        };
        let mut u_out = vec![];
        let users = rt.block_on(a.get_users()).map_err(|e| format!("get_users: {e}"))?;
        for u in &users {
            u_out.push(json!([u.id, u.username, u.status == UserStatus::Active]));
            let by_id = rt.block_on(a.get_user(&Identifier::numeric(u.id).unwrap()));
            let by_name = rt.block_on(a.get_user(&Identifier::named(&u.username).map_err(|e| e.to_string())?));
            match (by_id, by_name) {
                (Ok(Some(d)), Ok(Some(n))) => {
                    if d.id != n.id || d.username != n.username || d.id != u.id || d.status != u.status {
                        incons.push(format!("user {} lookups differ", u.id));
                    }
                }
                (x, y) => incons.push(format!("user {} lookup: by id {:?} by name {:?}", u.id, x.map(|o| o.map(|d| d.id)), y.map(|o| o.map(|d| d.id)))),
            }
        }
        // memberships as the server reports them for the harness' member clients
        let mut mem_out = vec![];
        for c in 1..=2usize {
            if let Some((_, cid)) = run.members[c].as_ref() {
                match rt.block_on(a.get_client(*cid)) {
                    Ok(Some(ci)) => {
                        for g in &ci.consumer_groups {
                            mem_out.push(json!([c, g.stream_id, g.topic_id, g.group_id]));
                        }
                    }
                    Ok(None) => incons.push(format!("client {c} unknown to the server")),
                    Err(e) => incons.push(format!("get_client {c}: {}", err_class(&e))),
                }
            }
        }
        // directory tree
        let (mut d_s, mut d_t, mut d_p) = (vec![], vec![], vec![]);
        let sroot = format!("{}/streams", run.dir);
        for sid in list_num_dirs(&sroot) {
            d_s.push(json!([sid]));
            let troot = format!("{sroot}/{sid}/topics");
            for tid in list_num_dirs(&troot) {
                d_t.push(json!([sid, tid]));
                let proot = format!("{troot}/{tid}/partitions");
                for pid in list_num_dirs(&proot) {
                    d_p.push(json!([sid, tid, pid]));
                }
            }
        }
        let _: Option<IggyError> = None;
        // C19: with encryption on no journalled command content (names) may appear in clear in the state log
        let mut journal_hits = 0u64;
        if run.scn.cfg.encryption {
            let mut needles: Vec<Vec<u8>> = vec![];
            for st in &run.scn.steps {
                if let Some(n) = st["name"].as_str() {
                    if n.len() >= 5 {
                        needles.push(n.as_bytes().to_vec());
                    }
                }
            }
            needles.sort();
            needles.dedup();
            journal_hits = crate::util::scan_files_for(&format!("{}/state", run.dir), &needles);
        }
        Ok(json!({"journal_hits": journal_hits, "S": s_out, "T": t_out, "Tset": tset_out, "stats": stats_out, "size_incons": size_incons, "G": g_out, "Cnt": cnt_out, "U": u_out, "Mem": mem_out,
                  "dS": d_s, "dT": d_t, "dP": d_p, "incons": incons}))
    }
}

fn list_num_dirs(root: &str) -> Vec<u64> {
    let mut v = vec![];
    if let Ok(rd) = std::fs::read_dir(root) {
        for e in rd.flatten() {
            if e.path().is_dir() {
                if let Some(n) = e.file_name().to_str().and_then(|s| s.parse::<u64>().ok()) {
                    v.push(n);
                }
            }
        }
    }
    v.sort();
    v
}
