//! SDK lens (C20): the REAL IggyProducer / IggyConsumer of the SDK, created through IggyClient, run against an in-process
//! server. Their transport is a recording client (rec_client.rs, generated) that logs every send_messages / poll_messages /
//! store_consumer_offset they put on the wire, in order, interleaved with the messages the consumer yields as a Stream.
//! After every step an administrator connection reads ALL partitions of ALL fixture topics and the stored offsets of the
//! consumer identity. Nothing is judged here: the trace is validated against specs/IggySdk.tla by TLC.
use crate::rec_client::RecClient;
use crate::srv::{self, ScnConfig};
use crate::util::{res_of, TraceWriter};
use bytes::Bytes;
use futures::StreamExt;
use iggy::client::*;
use iggy::clients::client::IggyClient;
use iggy::clients::consumer::{AutoCommit, AutoCommitAfter, AutoCommitWhen, IggyConsumer, ReceivedMessage};
use iggy::consumer_ext::{IggyConsumerMessageExt, MessageConsumer};
use iggy::clients::producer::IggyProducer;
use iggy::compression::compression_algorithm::CompressionAlgorithm;
use iggy::consumer::Consumer;
use iggy::identifier::Identifier;
use iggy::locking::{IggySharedMut, IggySharedMutFn};
use iggy::messages::poll_messages::PollingStrategy;
use iggy::messages::send_messages::{Message, Partitioning};
use iggy::tcp::client::TcpClient;
use iggy::utils::crypto::{Aes256GcmEncryptor, EncryptorKind};
use iggy::utils::duration::IggyDuration;
use iggy::utils::expiry::IggyExpiry;
use iggy::utils::topic_size::MaxTopicSize;
use serde::Deserialize;
use serde_json::{json, Value};
use std::sync::atomic::{AtomicU64, Ordering};
use std::sync::{Arc, Mutex};
use std::time::Duration;

#[derive(Debug, Clone, Deserialize, Default)]
pub struct ProdCfg {
    #[serde(default)]
    pub batch: u32, // 0: without batch size
    #[serde(default)]
    pub interval_us: u64, // 0: without send interval (the "immediate" code path)
    #[serde(default)]
    pub part: String, // "none" | "balanced" | "pid:K" | "key:XX"
    #[serde(default)]
    pub retries: bool,
}

#[derive(Debug, Clone, Deserialize, Default)]
pub struct ConsCfg {
    #[serde(default)]
    pub kind: String, // "single" | "group"
    #[serde(default)]
    pub partition: u32,
    #[serde(default)]
    pub strategy: String, // "next" | "offset:K" | "first" | "last"
    #[serde(default)]
    pub batch: u32,
    #[serde(default)]
    pub mode: String, // disabled | polling | each | all | nth | interval | interval_or_polling | interval_or_each | interval_or_all | interval_or_nth
    #[serde(default)]
    pub nth: u32,
    #[serde(default)]
    pub interval_ms: u64,
    #[serde(default)]
    pub poll_interval_us: u64,
}

#[derive(Debug, Clone, Deserialize)]
pub struct Scenario {
    pub id: String,
    #[serde(default)]
    pub cfg: ScnConfig,
    #[serde(default)]
    pub seed: u64,
    pub partitions: u32,
    #[serde(default)]
    pub encrypt: bool,
    pub producer: ProdCfg,
    pub consumer: ConsCfg,
    pub steps: Vec<Value>,
}

pub struct SdkLens {
    pub work: String,
}

pub fn parse_m(payload: &[u8]) -> i64 {
    if payload.len() >= 11 && &payload[0..3] == b"<<M" {
        if let Ok(s) = std::str::from_utf8(&payload[3..9]) {
            return s.parse::<i64>().unwrap_or(-1);
        }
    }
    -1
}

fn parse_part(s: &str) -> Option<Partitioning> {
    if s == "balanced" {
        Some(Partitioning::balanced())
    } else if let Some(k) = s.strip_prefix("pid:") {
        Some(Partitioning::partition_id(k.parse().unwrap_or(1)))
    } else if let Some(k) = s.strip_prefix("key:") {
        Partitioning::messages_key_str(k).ok()
    } else {
        None
    }
}

struct Rec {
    events: Arc<Mutex<Vec<Value>>>,
    polls_since_yield: Arc<AtomicU64>,
    incarnations: Arc<AtomicU64>,
    inflight: Arc<AtomicU64>,
    pause: Arc<std::sync::atomic::AtomicBool>,
    parked: Arc<std::sync::atomic::AtomicBool>,
    resume: Arc<tokio::sync::Notify>,
}

impl Rec {
    fn client(&self, inner: TcpClient, tag: &str, decrypt: &Option<Arc<EncryptorKind>>) -> RecClient {
        let inc = if tag == "consumer" { self.incarnations.fetch_add(1, Ordering::SeqCst) + 1 } else { 0 };
        RecClient { inner, events: self.events.clone(), polls_since_yield: self.polls_since_yield.clone(), tag: tag.to_string(), inflight: self.inflight.clone(), inc,
            pause: if tag == "consumer" { self.pause.clone() } else { Arc::new(std::sync::atomic::AtomicBool::new(false)) },
            parked: self.parked.clone(), resume: self.resume.clone(), decrypt: decrypt.clone() }
    }
    fn push(&self, v: Value) {
        self.events.lock().unwrap().push(v);
    }
    fn len(&self) -> usize {
        self.events.lock().unwrap().len()
    }
    /// the first n recorded events (the rest stays for the next step)
    fn take_first(&self, n: usize) -> Vec<Value> {
        let mut g = self.events.lock().unwrap();
        let n = n.min(g.len());
        let rest = g.split_off(n);
        let first = std::mem::replace(&mut *g, rest);
        filter_noise(first)
    }
    /// No recorded request is in flight - observed several times with the scheduler run in between. Everything here runs on ONE
    /// thread (current-thread runtime): a background task that has been woken (a queued commit) is polled before this loop
    /// sees "nothing in flight" twice in a row, and it issues its next request without yielding in between.
    async fn wait_quiet(&self) {
        let mut calm = 0;
        for round in 0..2_000_000u64 {
            if round > 0 && round % 5000 == 0 && std::env::var("VERIF_SDK_DEBUG").is_ok() {
                eprintln!("[sdk] wait_quiet round {round} inflight={}", self.inflight.load(Ordering::SeqCst));
            }
            tokio::task::yield_now().await;
            if self.inflight.load(Ordering::SeqCst) == 0 {
                calm += 1;
                if calm >= 3 {
                    return;
                }
            } else {
                calm = 0;
                tokio::time::sleep(Duration::from_micros(100)).await;
            }
        }
    }
}

/// Drops what carries no information: an empty poll answer directly after another empty answer for the same partition, and a
/// store that repeats the previous store of the same partition (the interval task re-stores offset 0 at every tick).
fn filter_noise(events: Vec<Value>) -> Vec<Value> {
    let mut out: Vec<Value> = vec![];
    let mut last_store: std::collections::HashMap<u64, (u64, String)> = std::collections::HashMap::new();
    let mut last_empty_poll: Option<u64> = None;
    let mut empty_run = 0;
    for e in events {
        match e["ev"].as_str().unwrap_or("") {
            "wire_store" => {
                let key = e["partition"].as_u64().unwrap_or(0);
                let val = (e["offset"].as_u64().unwrap_or(0), e["res"].as_str().unwrap_or("").to_string());
                if last_store.get(&key) == Some(&val) {
                    continue;
                }
                last_store.insert(key, val);
                last_empty_poll = None;
                out.push(e);
            }
            "wire_poll" if e["offs"].as_array().map(|a| a.is_empty()).unwrap_or(false) && e["res"] == "ok" => {
                let p = e["p"].as_u64().unwrap_or(0);
                if last_empty_poll == Some(p) || empty_run >= 4 {
                    empty_run += 1;
                    continue;
                }
                last_empty_poll = Some(p);
                empty_run += 1;
                out.push(e);
            }
            _ => {
                if e["ev"] == "wire_poll" && e["auto_commit"] == true {
                    // a commit-on-fetch poll moves the stored offset: a later store of the old value is news again
                    last_store.remove(&e["p"].as_u64().unwrap_or(0));
                }
                last_empty_poll = None;
                empty_run = 0;
                out.push(e);
            }
        }
    }
    out
}

fn significant(events: &Arc<Mutex<Vec<Value>>>) -> usize {
    filter_noise(events.lock().unwrap().clone()).len()
}

/// The application side of `consume_messages()` (the After(...) commit modes only work through it): records what it is handed
/// and asks for the shutdown once it has had `limit` messages.
struct ExtSink {
    events: Arc<Mutex<Vec<Value>>>,
    polls_since_yield: Arc<AtomicU64>,
    count: AtomicU64,
    limit: u64,
    shutdown: Arc<Mutex<Option<tokio::sync::oneshot::Sender<()>>>>,
}

impl MessageConsumer for ExtSink {
    async fn consume(&self, rm: ReceivedMessage) -> Result<(), iggy::error::IggyError> {
        self.polls_since_yield.store(0, Ordering::SeqCst);
        self.events.lock().unwrap().push(json!({"ev":"yield","p":rm.partition_id,"o":rm.message.offset,"m":parse_m(&rm.message.payload)}));
        let c = self.count.fetch_add(1, Ordering::SeqCst) + 1;
        if self.limit > 0 && c >= self.limit {
            if let Some(tx) = self.shutdown.lock().unwrap().take() {
                let _ = tx.send(());
            }
        }
        Ok(())
    }
}

struct LiveConsumer {
    consumer: IggyConsumer,
    shared: IggySharedMut<Box<dyn Client>>,
    /// the server-side id of the consumer's connection: "everything this connection sent has been processed" = the server has
    /// removed the client after the disconnect (a consumer dropped in mid-request leaves its connection one answer behind, so an
    /// answered request proves nothing about the one before it)
    client_id: u32,
}

impl SdkLens {
    pub fn new(work: &str) -> Self {
        SdkLens { work: work.to_string() }
    }

    pub fn run_scenario(&self, idx: usize, scn: &Scenario, out: &mut TraceWriter) -> Result<(), String> {
        let dir = format!("{}/d{}", self.work, idx);
        let _ = std::fs::remove_dir_all(&dir);
        std::fs::create_dir_all(&dir).map_err(|e| e.to_string())?;
        let config = srv::build_config(&dir, &scn.cfg, srv::ENC_KEY_A);
        let inc = srv::start(config, &scn.cfg, false)?;
        let tcp = inc.tcp;
        let r = inc.rt.block_on(self.run(idx, scn, tcp, out));
        let _ = srv::stop(inc, false);
        let _ = std::fs::remove_dir_all(&dir);
        r
    }

    async fn run(&self, idx: usize, scn: &Scenario, tcp: std::net::SocketAddr, out: &mut TraceWriter) -> Result<(), String> {
        let admin = srv::tcp_root(tcp).await?;
        for sid in 1..=2u32 {
            admin.create_stream(&format!("vstream{sid}"), Some(sid)).await.map_err(|e| e.to_string())?;
            for tid in 1..=2u32 {
                admin.create_topic(&Identifier::numeric(sid).unwrap(), &format!("vtopic{tid}"), scn.partitions, CompressionAlgorithm::None, None,
                    Some(tid), IggyExpiry::NeverExpire, MaxTopicSize::Unlimited).await.map_err(|e| e.to_string())?;
            }
        }
        let encryptor: Option<Arc<EncryptorKind>> = if scn.encrypt {
            Some(Arc::new(EncryptorKind::Aes256Gcm(Aes256GcmEncryptor::from_base64_key(srv::ENC_KEY_B).map_err(|e| e.to_string())?)))
        } else {
            None
        };
        let rec = Rec { events: Arc::new(Mutex::new(vec![])), polls_since_yield: Arc::new(AtomicU64::new(0)), incarnations: Arc::new(AtomicU64::new(0)), inflight: Arc::new(AtomicU64::new(0)),
            pause: Arc::new(std::sync::atomic::AtomicBool::new(false)), parked: Arc::new(std::sync::atomic::AtomicBool::new(false)), resume: Arc::new(tokio::sync::Notify::new()) };
        out.emit(&json!({"ev":"reset","sc":idx,"id":scn.id,"partitions":scn.partitions,"encrypt":scn.encrypt,
            "producer":{"batch":scn.producer.batch,"interval_us":scn.producer.interval_us,"part":scn.producer.part,"retries":scn.producer.retries},
            "consumer":{"kind":scn.consumer.kind,"partition":scn.consumer.partition,"strategy":scn.consumer.strategy,"batch":scn.consumer.batch,
                        "mode":scn.consumer.mode,"nth":scn.consumer.nth}}));
        // the producer under test (addressed to stream 1 / topic 1)
        let pclient = IggyClient::create(Box::new(rec.client(srv::tcp_root(tcp).await?, "producer", &encryptor)), None, encryptor.clone());
        let mut pb = pclient.producer("1", "1").map_err(|e| e.to_string())?;
        pb = if scn.producer.batch == 0 { pb.without_batch_size() } else { pb.batch_size(scn.producer.batch) };
        pb = if scn.producer.interval_us == 0 { pb.without_send_interval() } else { pb.send_interval(IggyDuration::from(scn.producer.interval_us)) };
        if let Some(p) = parse_part(&scn.producer.part) {
            pb = pb.partitioning(p);
        }
        pb = if scn.producer.retries { pb.send_retries(Some(2), Some(IggyDuration::from(1000u64))) } else { pb.send_retries(None, None) };
        let mut producer: IggyProducer = pb.build();
        producer.init().await.map_err(|e| format!("producer init: {e}"))?;
        let mut live: Option<LiveConsumer> = None;
        let mut next_m: i64 = 1;
        let mut i = 0u64;
        let dbg = std::env::var("VERIF_SDK_DEBUG").is_ok();
        for step in &scn.steps {
            i += 1;
            let op = step["op"].as_str().unwrap_or("");
            if dbg {
                eprintln!("[sdk] step {step} inflight={} events={}", rec.inflight.load(Ordering::SeqCst), rec.len());
            }
            match op {
                "send" => {
                    let call = step["call"].as_str().unwrap_or("send");
                    let k = step["k"].as_u64().unwrap_or(1);
                    let part_s = step["part"].as_str().unwrap_or("").to_string();
                    let to_s = step["to"][0].as_u64().unwrap_or(1) as u32;
                    let to_t = step["to"][1].as_u64().unwrap_or(1) as u32;
                    let mut msgs = vec![];
                    let mut ms = vec![];
                    for _ in 0..(if call == "send_one" { 1 } else { k }) {
                        let payload = format!("<<M{:06}>>-payload", next_m);
                        msgs.push(Message::new(None, Bytes::from(payload), None));
                        ms.push(next_m);
                        next_m += 1;
                    }
                    out.emit(&json!({"ev":"call_begin","sc":idx,"i":i,"call":call,"ms":ms,"part":part_s,"to":[to_s, to_t]}));
                    let part = parse_part(&part_s).map(Arc::new);
                    let r = match call {
                        "send_one" => producer.send_one(msgs.remove(0)).await,
                        "send_with_partitioning" => producer.send_with_partitioning(msgs, part).await,
                        "send_to" => producer.send_to(Arc::new(Identifier::numeric(to_s).unwrap()), Arc::new(Identifier::numeric(to_t).unwrap()), msgs, part).await,
                        _ => producer.send(msgs).await,
                    };
                    rec.wait_quiet().await;
                    let (obs, upto) = self.observe_consistent(&admin, scn, &encryptor, &rec).await?;
                    for e in rec.take_first(upto) {
                        i += 1;
                        out.emit(&with(e, idx, i));
                    }
                    i += 1;
                    out.emit(&json!({"ev":"call_end","sc":idx,"i":i,"call":call,"res":res_of(&r),"obs":obs}));
                }
                "consume" if scn.consumer.mode.contains("after") => {
                    // consume_messages() takes the consumer by value: every consume step is one incarnation
                    let n = step["n"].as_u64().unwrap_or(0);
                    if let Some(lc) = live.take() {
                        drop(lc);
                    }
                    let lc = self.make_consumer(scn, tcp, &rec, &encryptor).await?;
                    rec.wait_quiet().await;
                    i += 1;
                    let (obs, _) = self.observe_consistent(&admin, scn, &encryptor, &rec).await?;
                    out.emit(&json!({"ev":"created","sc":idx,"i":i,"inc":rec.incarnations.load(Ordering::SeqCst),"obs":obs}));
                    let (tx, rx) = tokio::sync::oneshot::channel::<()>();
                    let shutdown = Arc::new(Mutex::new(Some(tx)));
                    let sink: &'static ExtSink = Box::leak(Box::new(ExtSink { events: rec.events.clone(), polls_since_yield: rec.polls_since_yield.clone(),
                        count: AtomicU64::new(0), limit: n, shutdown: shutdown.clone() }));
                    rec.polls_since_yield.store(0, Ordering::SeqCst);
                    let idle_flag = Arc::new(std::sync::atomic::AtomicBool::new(false));
                    let idle_polls = 2 * scn.partitions as u64 + 3;
                    let min_idle = if scn.consumer.mode.starts_with("interval") { Duration::from_millis(3 * scn.consumer.interval_ms.max(1)) } else { Duration::ZERO };
                    let watcher = {
                        let (psy, shutdown, idle_flag) = (rec.polls_since_yield.clone(), shutdown.clone(), idle_flag.clone());
                        tokio::spawn(async move {
                            let mut t0 = tokio::time::Instant::now();
                            let mut seen = 0u64;
                            loop {
                                let v = psy.load(Ordering::SeqCst);
                                if v < seen {
                                    t0 = tokio::time::Instant::now(); // something was yielded meanwhile
                                }
                                seen = v;
                                if v >= 2 * idle_polls && t0.elapsed() >= min_idle {
                                    if let Some(tx) = shutdown.lock().unwrap().take() {
                                        idle_flag.store(true, Ordering::SeqCst);
                                        let _ = tx.send(());
                                    }
                                    return;
                                }
                                if shutdown.lock().unwrap().is_none() {
                                    return;
                                }
                                tokio::time::sleep(Duration::from_micros(300)).await;
                            }
                        })
                    };
                    let LiveConsumer { consumer, shared, client_id } = lc;
                    rec.pause.store(false, Ordering::SeqCst);
                    rec.parked.store(false, Ordering::SeqCst);
                    rec.resume.notify_waiters();
                    let r = consumer.consume_messages(sink, rx).await;
                    let _ = watcher.await;
                    let error = match &r { Ok(()) => String::new(), Err(e) => crate::util::err_class(e) };
                    rec.wait_quiet().await;
                    {
                        let c = shared.read().await;
                        if scn.consumer.kind == "group" {
                            let _ = c.leave_consumer_group(&Identifier::numeric(1).unwrap(), &Identifier::numeric(1).unwrap(), &Identifier::named("vgroup").unwrap()).await;
                        }
                        let _ = c.disconnect().await;
                    }
                    drop(shared);
                    wait_client_gone(&admin, client_id).await;
                    rec.wait_quiet().await;
                    let (obs, upto) = self.observe_consistent(&admin, scn, &encryptor, &rec).await?;
                    for e in rec.take_first(upto) {
                        i += 1;
                        out.emit(&with(e, idx, i));
                    }
                    i += 1;
                    out.emit(&json!({"ev":"consume_end","sc":idx,"i":i,"n":n,"yielded":sink.count.load(Ordering::SeqCst),"idle":idle_flag.load(Ordering::SeqCst),
                        "error":error,"ext":true,"obs":obs}));
                    i += 1;
                    out.emit(&json!({"ev":"dropped","sc":idx,"i":i,"obs":obs}));
                }
                "consume" => {
                    let n = step["n"].as_u64().unwrap_or(0);
                    if live.is_none() {
                        live = Some(self.make_consumer(scn, tcp, &rec, &encryptor).await?);
                        rec.wait_quiet().await;
                        i += 1;
                    let (obs, _) = self.observe_consistent(&admin, scn, &encryptor, &rec).await?;
                    out.emit(&json!({"ev":"created","sc":idx,"i":i,"inc":rec.incarnations.load(Ordering::SeqCst),"obs":obs}));
                    }
                    let lc = live.as_mut().unwrap();
                    let mut yielded = 0u64;
                    let mut idle = false;
                    let mut error = String::new();
                    // a full rotation over the partitions without anything new, twice: the consumer has nothing more to give
                    let idle_polls = 2 * scn.partitions as u64 + 3;
                    rec.polls_since_yield.store(0, Ordering::SeqCst);
                    rec.pause.store(false, Ordering::SeqCst);
                    rec.parked.store(false, Ordering::SeqCst);
                    rec.resume.notify_waiters();
                    while n == 0 || yielded < n {
                        if dbg {
                            eprintln!("[sdk] consume loop yielded={yielded} psy={} inflight={}", rec.polls_since_yield.load(Ordering::SeqCst), rec.inflight.load(Ordering::SeqCst));
                        }
                        let psy = rec.polls_since_yield.clone();
                        let (pause, parked) = (rec.pause.clone(), rec.parked.clone());
                        // interval modes: the commit that lets the consumer move on may come from the interval task, so "nothing
                        // more" is only concluded after three intervals without a yield AND a further round of fruitless polls
                        let min_idle = if scn.consumer.mode.starts_with("interval") { Duration::from_millis(3 * scn.consumer.interval_ms.max(1)) } else { Duration::ZERO };
                        let watcher = async move {
                            let t0 = tokio::time::Instant::now();
                            loop {
                                if psy.load(Ordering::SeqCst) >= idle_polls && t0.elapsed() >= min_idle {
                                    let mark = psy.load(Ordering::SeqCst);
                                    while psy.load(Ordering::SeqCst) < mark + idle_polls {
                                        tokio::time::sleep(Duration::from_micros(300)).await;
                                    }
                                    // the consumer's future is left suspended at a clean point: parked in front of its next poll
                                    pause.store(true, Ordering::SeqCst);
                                    while !parked.load(Ordering::SeqCst) {
                                        tokio::time::sleep(Duration::from_micros(100)).await;
                                    }
                                    return;
                                }
                                tokio::time::sleep(Duration::from_micros(300)).await;
                            }
                        };
                        tokio::select! {
                            biased;
                            item = lc.consumer.next() => {
                                match item {
                                    Some(Ok(rm)) => {
                                        yielded += 1;
                                        rec.polls_since_yield.store(0, Ordering::SeqCst);
                                        rec.push(json!({"ev":"yield","p":rm.partition_id,"o":rm.message.offset,"m":parse_m(&rm.message.payload)}));
                                        if scn.consumer.mode == "disabled" {
                                            // the documented manual way: the application stores the offset of what it has processed
                                            let _ = lc.consumer.store_offset(rm.message.offset, Some(rm.partition_id)).await;
                                        }
                                    }
                                    Some(Err(e)) => { error = crate::util::err_class(&e); break; }
                                    None => { error = "stream_ended".into(); break; }
                                }
                            }
                            _ = watcher => { idle = true; break; }
                        }
                    }
                    rec.wait_quiet().await;
                    let (obs, upto) = self.observe_consistent(&admin, scn, &encryptor, &rec).await?;
                    for e in rec.take_first(upto) {
                        i += 1;
                        out.emit(&with(e, idx, i));
                    }
                    i += 1;
                    out.emit(&json!({"ev":"consume_end","sc":idx,"i":i,"n":n,"yielded":yielded,"idle":idle,"error":error,"obs":obs}));
                }
                "recreate" => {
                    if let Some(lc) = live.take() {
                        let LiveConsumer { consumer, shared, client_id } = lc;
                        drop(consumer);
                        rec.wait_quiet().await;
                        {
                            let c = shared.read().await;
                            if scn.consumer.kind == "group" {
                                let _ = c.leave_consumer_group(&Identifier::numeric(1).unwrap(), &Identifier::numeric(1).unwrap(), &Identifier::named("vgroup").unwrap()).await;
                            }
                            let _ = c.disconnect().await;
                        }
                        drop(shared);
                        wait_client_gone(&admin, client_id).await;
                    }
                    rec.wait_quiet().await;
                    let (obs, upto) = self.observe_consistent(&admin, scn, &encryptor, &rec).await?;
                    for e in rec.take_first(upto) {
                        i += 1;
                        out.emit(&with(e, idx, i));
                    }
                    i += 1;
                    out.emit(&json!({"ev":"dropped","sc":idx,"i":i,"obs":obs}));
                }
                other => return Err(format!("unknown op {other}")),
            }
            let _ = rec.len();
        }
        drop(live);
        drop(producer);
        Ok(())
    }

    async fn make_consumer(&self, scn: &Scenario, tcp: std::net::SocketAddr, rec: &Rec, encryptor: &Option<Arc<EncryptorKind>>) -> Result<LiveConsumer, String> {
        let c = &scn.consumer;
        let raw = srv::tcp_root(tcp).await?;
        let client_id = raw.get_me().await.map(|m| m.client_id).map_err(|e| format!("get_me: {e}"))?;
        let client = IggyClient::create(Box::new(rec.client(raw, "consumer", encryptor)), None, encryptor.clone());
        let shared = client.client();
        let mut b = if c.kind == "group" {
            client.consumer_group("vgroup", "1", "1").map_err(|e| e.to_string())?
        } else {
            client.consumer("7", "1", "1", c.partition.max(1)).map_err(|e| e.to_string())?
        };
        let strategy = if let Some(k) = c.strategy.strip_prefix("offset:") {
            PollingStrategy::offset(k.parse().unwrap_or(0))
        } else {
            match c.strategy.as_str() {
                "first" => PollingStrategy::first(),
                "last" => PollingStrategy::last(),
                _ => PollingStrategy::next(),
            }
        };
        let d = IggyDuration::from(c.interval_ms.max(1) * 1000);
        let nth = c.nth.max(1);
        let ac = match c.mode.as_str() {
            "disabled" => AutoCommit::Disabled,
            "polling" => AutoCommit::When(AutoCommitWhen::PollingMessages),
            "each" => AutoCommit::When(AutoCommitWhen::ConsumingEachMessage),
            "all" => AutoCommit::When(AutoCommitWhen::ConsumingAllMessages),
            "nth" => AutoCommit::When(AutoCommitWhen::ConsumingEveryNthMessage(nth)),
            "interval" => AutoCommit::Interval(d),
            "interval_or_polling" => AutoCommit::IntervalOrWhen(d, AutoCommitWhen::PollingMessages),
            "interval_or_each" => AutoCommit::IntervalOrWhen(d, AutoCommitWhen::ConsumingEachMessage),
            "interval_or_all" => AutoCommit::IntervalOrWhen(d, AutoCommitWhen::ConsumingAllMessages),
            "interval_or_nth" => AutoCommit::IntervalOrWhen(d, AutoCommitWhen::ConsumingEveryNthMessage(nth)),
            "after_each" => AutoCommit::After(AutoCommitAfter::ConsumingEachMessage),
            "after_all" => AutoCommit::After(AutoCommitAfter::ConsumingAllMessages),
            "after_nth" => AutoCommit::After(AutoCommitAfter::ConsumingEveryNthMessage(nth)),
            "interval_or_after_each" => AutoCommit::IntervalOrAfter(d, AutoCommitAfter::ConsumingEachMessage),
            "interval_or_after_all" => AutoCommit::IntervalOrAfter(d, AutoCommitAfter::ConsumingAllMessages),
            "interval_or_after_nth" => AutoCommit::IntervalOrAfter(d, AutoCommitAfter::ConsumingEveryNthMessage(nth)),
            m => return Err(format!("unknown mode {m}")),
        };
        b = b.polling_strategy(strategy).batch_size(c.batch.max(1)).auto_commit(ac);
        b = if c.poll_interval_us > 0 { b.poll_interval(IggyDuration::from(c.poll_interval_us)) } else { b.without_poll_interval() };
        let mut consumer = b.build();
        consumer.init().await.map_err(|e| format!("consumer init: {e}"))?;
        drop(client);
        Ok(LiveConsumer { consumer, shared, client_id })
    }

    /// The observation together with the number of recorded events it is consistent with: the stored offsets are read while no
    /// recorded request is in flight and no event is recorded during the read (otherwise the read is repeated).
    async fn observe_consistent(&self, admin: &TcpClient, scn: &Scenario, encryptor: &Option<Arc<EncryptorKind>>, rec: &Rec) -> Result<(Value, usize), String> {
        rec.wait_quiet().await;
        let mut obs = self.observe(admin, scn, encryptor).await?;
        // the stored offsets are re-read in a window during which no commit is in flight and no event is recorded (a live
        // consumer's interval task commits every few milliseconds: the window is a few hundred microseconds)
        for round in 0..100_000 {
            if round > 0 && round % 1000 == 0 && std::env::var("VERIF_SDK_DEBUG").is_ok() {
                eprintln!("[sdk] observe_consistent round {round} inflight={} events={}", rec.inflight.load(Ordering::SeqCst), rec.len());
            }
            rec.wait_quiet().await;
            let n0 = rec.len();
            let stored = self.observe_stored(admin, scn).await;
            if rec.inflight.load(Ordering::SeqCst) == 0 && rec.len() == n0 {
                obs["stored"] = json!(stored);
                return Ok((obs, n0));
            }
        }
        Err("no consistent observation (the recorded clients never became quiet)".into())
    }

    async fn observe_stored(&self, admin: &TcpClient, scn: &Scenario) -> Vec<i64> {
        let ident = if scn.consumer.kind == "group" { Consumer::group(Identifier::named("vgroup").unwrap()) } else { Consumer::new(Identifier::numeric(7).unwrap()) };
        let mut stored = vec![];
        for p in 1..=scn.partitions {
            let r = admin.get_consumer_offset(&ident, &Identifier::numeric(1).unwrap(), &Identifier::numeric(1).unwrap(), Some(p)).await;
            stored.push(match r {
                Ok(Some(info)) => info.stored_offset as i64,
                _ => -1,
            });
        }
        stored
    }

    /// ground truth: every partition of every fixture topic, and the stored offsets of the consumer identity on stream 1 / topic 1
    async fn observe(&self, admin: &TcpClient, scn: &Scenario, encryptor: &Option<Arc<EncryptorKind>>) -> Result<Value, String> {
        let mut logs = serde_json::Map::new();
        let obsc = Consumer::new(Identifier::numeric(9999).unwrap());
        for sid in 1..=2u32 {
            for tid in 1..=2u32 {
                for p in 1..=scn.partitions {
                    let r = admin.poll_messages(&Identifier::numeric(sid).unwrap(), &Identifier::numeric(tid).unwrap(), Some(p), &obsc,
                        &PollingStrategy::offset(0), 100_000, false).await.map_err(|e| format!("observe poll: {e}"))?;
                    let mut l = vec![];
                    for (k, m) in r.messages.iter().enumerate() {
                        let mut v = parse_m(&m.payload);
                        if v < 0 {
                            if let Some(enc) = encryptor {
                                if let Ok(plain) = enc.decrypt(&m.payload) {
                                    v = parse_m(&plain);
                                }
                            }
                        }
                        // offsets are dense from 0 (C01/C02 are decided elsewhere); a hole would show as -2
                        l.push(if m.offset == k as u64 { v } else { -2 });
                    }
                    logs.insert(format!("{sid}/{tid}/{p}"), json!(l));
                }
            }
        }
        let stored = self.observe_stored(admin, scn).await;
        Ok(json!({"logs": logs, "stored": stored}))
    }
}

/// waits (generously) until the server has removed the client: everything its connection sent has then been processed
async fn wait_client_gone(admin: &TcpClient, client_id: u32) {
    for _ in 0..10_000 {
        if matches!(admin.get_client(client_id).await, Ok(None)) {
            return;
        }
        tokio::time::sleep(Duration::from_millis(2)).await;
    }
}

fn with(mut e: Value, sc: usize, i: u64) -> Value {
    e["sc"] = json!(sc);
    e["i"] = json!(i);
    e
}
