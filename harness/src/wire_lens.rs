//! Wire lens (C13): (1) every command type the SDK can build, with seeded structure-aware values (identifier kinds and
//! boundary lengths, partitioning kinds, polling strategies, header value kinds, optional fields), is encoded by the SDK and
//! decoded by the server's own request decoder (hook H7) - the decoded request must equal the original and validate alike;
//! (2) malformed frames on one raw TCP connection while a second connection keeps working: answered with an error or a
//! closed connection, catalogue and the other connection untouched.
use crate::srv::{self, ScnConfig};
use crate::util::{Rng, TraceWriter};
use bytes::{BufMut, Bytes, BytesMut};
use iggy::bytes_serializable::BytesSerializable;
use iggy::client::{MessageClient, StreamClient, TopicClient, UserClient};
use iggy::command::Command;
use iggy::compression::compression_algorithm::CompressionAlgorithm;
use iggy::consumer::Consumer;
use iggy::identifier::Identifier;
use iggy::messages::poll_messages::{PollMessages, PollingStrategy};
use iggy::messages::send_messages::{Message, Partitioning, SendMessages};
use iggy::models::header::{HeaderKey, HeaderValue};
use iggy::models::permissions::{GlobalPermissions, Permissions, StreamPermissions, TopicPermissions};
use iggy::models::user_status::UserStatus;
use iggy::utils::duration::IggyDuration;
use iggy::utils::expiry::IggyExpiry;
use iggy::utils::timestamp::IggyTimestamp;
use iggy::utils::topic_size::MaxTopicSize;
use iggy::validatable::Validatable;
use serde::Deserialize;
use serde_json::json;
use server::VerifServerCommand as SC;
use std::collections::HashMap;
use std::io::{Read, Write};
use std::str::FromStr;

#[derive(Debug, Clone, Deserialize)]
pub struct Scenario {
    pub id: String,
    #[serde(default)]
    pub cfg: ScnConfig,
    #[serde(default)]
    pub seed: u64,
    pub kind: String, // "roundtrip" | "garbage"
    #[serde(default = "hundred")]
    pub per_type: u64,
}
fn hundred() -> u64 {
    100
}

pub struct WireLens {
    pub work: String,
}

fn name(rng: &mut Rng, max: usize) -> String {
    let n = match rng.below(6) {
        0 => 1,
        1 => 2,
        2 => 3,
        3 => max,
        4 => max - 1,
        _ => 1 + rng.below(max as u64 - 1) as usize,
    };
    (0..n).map(|_| (b'a' + rng.below(26) as u8) as char).collect()
}
fn ident(rng: &mut Rng) -> Identifier {
    match rng.below(5) {
        0 => Identifier::numeric(1).unwrap(),
        1 => Identifier::numeric(u32::MAX).unwrap(),
        2 => Identifier::numeric(1 + rng.below(1_000_000) as u32).unwrap(),
        _ => Identifier::named(&name(rng, 255)).unwrap(),
    }
}
fn opt_u32(rng: &mut Rng) -> Option<u32> {
    match rng.below(3) {
        0 => None,
        1 => Some(1),
        _ => Some(1 + rng.below(u32::MAX as u64 - 1) as u32),
    }
}
fn consumer(rng: &mut Rng) -> Consumer {
    if rng.chance(1, 2) {
        Consumer::new(ident(rng))
    } else {
        Consumer::group(ident(rng))
    }
}
fn expiry(rng: &mut Rng) -> IggyExpiry {
    match rng.below(4) {
        0 => IggyExpiry::NeverExpire,
        1 => IggyExpiry::ServerDefault,
        2 => IggyExpiry::ExpireDuration(IggyDuration::new(std::time::Duration::from_micros(1))),
        _ => IggyExpiry::ExpireDuration(IggyDuration::new(std::time::Duration::from_micros(1 + rng.below(1 << 40)))),
    }
}
fn max_size(rng: &mut Rng) -> MaxTopicSize {
    match rng.below(3) {
        0 => MaxTopicSize::ServerDefault,
        1 => MaxTopicSize::Unlimited,
        _ => MaxTopicSize::Custom(iggy::utils::byte_size::IggyByteSize::from(1 + rng.below(1 << 40))),
    }
}
fn permissions(rng: &mut Rng) -> Option<Permissions> {
    if rng.chance(1, 4) {
        return None;
    }
    let b = |rng: &mut Rng| rng.chance(1, 2);
    let global = GlobalPermissions {
        manage_servers: b(rng), read_servers: b(rng), manage_users: b(rng), read_users: b(rng), manage_streams: b(rng),
        read_streams: b(rng), manage_topics: b(rng), read_topics: b(rng), poll_messages: b(rng), send_messages: b(rng),
    };
    let streams = match rng.below(4) {
        0 => None,
        k => {
            let mut m = ahash::AHashMap::new();
            for _ in 0..k {
                let topics = match rng.below(3) {
                    0 => None,
                    j => {
                        let mut t = ahash::AHashMap::new();
                        for _ in 0..j {
                            t.insert(1 + rng.below(1000) as u32, TopicPermissions { manage_topic: b(rng), read_topic: b(rng), poll_messages: b(rng), send_messages: b(rng) });
                        }
                        Some(t)
                    }
                };
                m.insert(1 + rng.below(1000) as u32, StreamPermissions { manage_stream: b(rng), read_stream: b(rng), manage_topics: b(rng),
                    read_topics: b(rng), poll_messages: b(rng), send_messages: b(rng), topics });
            }
            Some(m)
        }
    };
    Some(Permissions { global, streams })
}
fn headers(rng: &mut Rng) -> Option<HashMap<HeaderKey, HeaderValue>> {
    if rng.chance(1, 2) {
        return None;
    }
    let mut h = HashMap::new();
    for j in 0..(1 + rng.below(5)) {
        let key = HeaderKey::new(&format!("k{}{}", j, name(rng, 20))).unwrap();
        let v = match rng.below(14) {
            0 => HeaderValue::from_raw(&rng.next().to_le_bytes()).unwrap(),
            1 => HeaderValue::from_str(&name(rng, 255)).unwrap(),
            2 => HeaderValue::from_bool(rng.chance(1, 2)).unwrap(),
            3 => HeaderValue::from_int8(rng.next() as i8).unwrap(),
            4 => HeaderValue::from_int16(rng.next() as i16).unwrap(),
            5 => HeaderValue::from_int32(rng.next() as i32).unwrap(),
            6 => HeaderValue::from_int64(rng.next() as i64).unwrap(),
            7 => HeaderValue::from_int128(rng.next() as i128 - (1 << 40)).unwrap(),
            8 => HeaderValue::from_uint8(rng.next() as u8).unwrap(),
            9 => HeaderValue::from_uint16(rng.next() as u16).unwrap(),
            10 => HeaderValue::from_uint32(rng.next() as u32).unwrap(),
            11 => HeaderValue::from_uint64(rng.next()).unwrap(),
            12 => HeaderValue::from_uint128(rng.next() as u128 * 7).unwrap(),
            _ => HeaderValue::from_float64(rng.next() as f64 / 3.0).unwrap(),
        };
        h.insert(key, v);
    }
    Some(h)
}

fn frame<T: Command>(c: &T) -> Bytes {
    let payload = c.to_bytes();
    let mut b = BytesMut::with_capacity(4 + payload.len());
    b.put_u32_le(c.code());
    b.put_slice(&payload);
    b.freeze()
}

/// One instance of every command type: (type name, SDK-encoded frame, the request the server must decode, SDK-side validation ok?)
fn instances(rng: &mut Rng) -> Vec<(&'static str, Bytes, SC, bool)> {
    use iggy::consumer_groups::{create_consumer_group::CreateConsumerGroup, delete_consumer_group::DeleteConsumerGroup,
        get_consumer_group::GetConsumerGroup, get_consumer_groups::GetConsumerGroups, join_consumer_group::JoinConsumerGroup,
        leave_consumer_group::LeaveConsumerGroup};
    use iggy::consumer_offsets::{delete_consumer_offset::DeleteConsumerOffset, get_consumer_offset::GetConsumerOffset,
        store_consumer_offset::StoreConsumerOffset};
    use iggy::messages::flush_unsaved_buffer::FlushUnsavedBuffer;
    use iggy::partitions::{create_partitions::CreatePartitions, delete_partitions::DeletePartitions};
    use iggy::personal_access_tokens::{create_personal_access_token::CreatePersonalAccessToken,
        delete_personal_access_token::DeletePersonalAccessToken, get_personal_access_tokens::GetPersonalAccessTokens,
        login_with_personal_access_token::LoginWithPersonalAccessToken};
    use iggy::streams::{create_stream::CreateStream, delete_stream::DeleteStream, get_stream::GetStream, get_streams::GetStreams,
        purge_stream::PurgeStream, update_stream::UpdateStream};
    use iggy::system::{get_client::GetClient, get_clients::GetClients, get_me::GetMe, get_stats::GetStats, ping::Ping};
    use iggy::topics::{create_topic::CreateTopic, delete_topic::DeleteTopic, get_topic::GetTopic, get_topics::GetTopics,
        purge_topic::PurgeTopic, update_topic::UpdateTopic};
    use iggy::users::{change_password::ChangePassword, create_user::CreateUser, delete_user::DeleteUser, get_user::GetUser,
        get_users::GetUsers, login_user::LoginUser, logout_user::LogoutUser, update_permissions::UpdatePermissions,
        update_user::UpdateUser};
    let mut v: Vec<(&'static str, Bytes, SC, bool)> = vec![];
    macro_rules! add {
        ($variant:ident, $cmd:expr) => {{
            let c = $cmd;
            let ok = c.validate().is_ok();
            v.push((stringify!($variant), frame(&c), SC::$variant(c), ok));
        }};
    }
    add!(Ping, Ping {});
    add!(GetStats, GetStats {});
    add!(GetMe, GetMe {});
    add!(GetClient, GetClient { client_id: 1 + rng.below(u32::MAX as u64 - 1) as u32 });
    add!(GetClients, GetClients {});
    add!(GetUser, GetUser { user_id: ident(rng) });
    add!(GetUsers, GetUsers {});
    add!(CreateUser, CreateUser { username: name(rng, 50), password: name(rng, 100), status: if rng.chance(1, 2) { UserStatus::Active } else { UserStatus::Inactive }, permissions: permissions(rng) });
    add!(DeleteUser, DeleteUser { user_id: ident(rng) });
    add!(UpdateUser, UpdateUser { user_id: ident(rng), username: if rng.chance(1, 2) { Some(name(rng, 50)) } else { None },
        status: match rng.below(3) { 0 => None, 1 => Some(UserStatus::Active), _ => Some(UserStatus::Inactive) } });
    add!(UpdatePermissions, UpdatePermissions { user_id: ident(rng), permissions: permissions(rng) });
    add!(ChangePassword, ChangePassword { user_id: ident(rng), current_password: name(rng, 100), new_password: name(rng, 100) });
    add!(LoginUser, LoginUser { username: name(rng, 50), password: name(rng, 100), version: if rng.chance(1, 2) { Some(name(rng, 20)) } else { None },
        context: if rng.chance(1, 2) { Some(name(rng, 30)) } else { None } });
    add!(LogoutUser, LogoutUser {});
    add!(GetPersonalAccessTokens, GetPersonalAccessTokens {});
    add!(CreatePersonalAccessToken, CreatePersonalAccessToken { name: name(rng, 30), expiry: expiry(rng) });
    add!(DeletePersonalAccessToken, DeletePersonalAccessToken { name: name(rng, 30) });
    add!(LoginWithPersonalAccessToken, LoginWithPersonalAccessToken { token: name(rng, 60) });
    add!(GetStream, GetStream { stream_id: ident(rng) });
    add!(GetStreams, GetStreams {});
    add!(CreateStream, CreateStream { stream_id: opt_u32(rng), name: name(rng, 255) });
    add!(UpdateStream, UpdateStream { stream_id: ident(rng), name: name(rng, 255) });
    add!(DeleteStream, DeleteStream { stream_id: ident(rng) });
    add!(PurgeStream, PurgeStream { stream_id: ident(rng) });
    add!(GetTopic, GetTopic { stream_id: ident(rng), topic_id: ident(rng) });
    add!(GetTopics, GetTopics { stream_id: ident(rng) });
    add!(CreateTopic, CreateTopic { stream_id: ident(rng), topic_id: opt_u32(rng), partitions_count: rng.below(1001) as u32,
        compression_algorithm: if rng.chance(1, 2) { CompressionAlgorithm::None } else { CompressionAlgorithm::Gzip }, message_expiry: expiry(rng),
        max_topic_size: max_size(rng), replication_factor: match rng.below(3) { 0 => None, 1 => Some(1), _ => Some(255) }, name: name(rng, 255) });
    add!(UpdateTopic, UpdateTopic { stream_id: ident(rng), topic_id: ident(rng),
        compression_algorithm: if rng.chance(1, 2) { CompressionAlgorithm::None } else { CompressionAlgorithm::Gzip }, message_expiry: expiry(rng),
        max_topic_size: max_size(rng), replication_factor: match rng.below(3) { 0 => None, 1 => Some(1), _ => Some(255) }, name: name(rng, 255) });
    add!(DeleteTopic, DeleteTopic { stream_id: ident(rng), topic_id: ident(rng) });
    add!(PurgeTopic, PurgeTopic { stream_id: ident(rng), topic_id: ident(rng) });
    add!(CreatePartitions, CreatePartitions { stream_id: ident(rng), topic_id: ident(rng), partitions_count: 1 + rng.below(1000) as u32 });
    add!(DeletePartitions, DeletePartitions { stream_id: ident(rng), topic_id: ident(rng), partitions_count: 1 + rng.below(1000) as u32 });
    add!(PollMessages, PollMessages { consumer: consumer(rng), stream_id: ident(rng), topic_id: ident(rng), partition_id: opt_u32(rng),
        strategy: match rng.below(5) { 0 => PollingStrategy::offset(rng.next() >> rng.below(64)), 1 => PollingStrategy::timestamp(IggyTimestamp::from(rng.next() >> 2)),
            2 => PollingStrategy::first(), 3 => PollingStrategy::last(), _ => PollingStrategy::next() },
        count: 1 + rng.below(u32::MAX as u64 - 1) as u32, auto_commit: rng.chance(1, 2) });
    {
        let n = 1 + rng.below(4);
        let mut messages = vec![];
        for _ in 0..n {
            // (an EMPTY payload next to non-empty ones: the two sides must agree on whether such a batch is a valid request)
            let len = match rng.below(6) { 0 => 1, 1 => 2, 2 => 0, _ => 1 + rng.below(300) as usize };
            let payload: Vec<u8> = (0..len).map(|_| rng.next() as u8).collect();
            // id 0 means "server-assigned" (the decoder replaces it by a fresh uuid): ids are given here so that equality is meaningful
            messages.push(Message::new(Some(rng.next() as u128 * 31 + 1), Bytes::from(payload), headers(rng)));
        }
        let partitioning = match rng.below(4) {
            0 => Partitioning::balanced(),
            1 => Partitioning::partition_id(1 + rng.below(u32::MAX as u64 - 1) as u32),
            2 => { let k: Vec<u8> = (0..(1 + rng.below(255))).map(|_| rng.next() as u8).collect(); Partitioning::messages_key(&k).unwrap() }
            _ => Partitioning::messages_key(&[rng.next() as u8]).unwrap(),
        };
        add!(SendMessages, SendMessages { stream_id: ident(rng), topic_id: ident(rng), partitioning, messages });
    }
    add!(FlushUnsavedBuffer, FlushUnsavedBuffer { stream_id: ident(rng), topic_id: ident(rng), partition_id: 1 + rng.below(1000) as u32, fsync: rng.chance(1, 2) });
    add!(GetConsumerOffset, GetConsumerOffset { consumer: consumer(rng), stream_id: ident(rng), topic_id: ident(rng), partition_id: opt_u32(rng) });
    add!(StoreConsumerOffset, StoreConsumerOffset { consumer: consumer(rng), stream_id: ident(rng), topic_id: ident(rng), partition_id: opt_u32(rng), offset: rng.next() >> rng.below(64) });
    add!(DeleteConsumerOffset, DeleteConsumerOffset { consumer: consumer(rng), stream_id: ident(rng), topic_id: ident(rng), partition_id: opt_u32(rng) });
    add!(GetConsumerGroup, GetConsumerGroup { stream_id: ident(rng), topic_id: ident(rng), group_id: ident(rng) });
    add!(GetConsumerGroups, GetConsumerGroups { stream_id: ident(rng), topic_id: ident(rng) });
    add!(CreateConsumerGroup, CreateConsumerGroup { stream_id: ident(rng), topic_id: ident(rng), group_id: opt_u32(rng), name: name(rng, 255) });
    add!(DeleteConsumerGroup, DeleteConsumerGroup { stream_id: ident(rng), topic_id: ident(rng), group_id: ident(rng) });
    add!(JoinConsumerGroup, JoinConsumerGroup { stream_id: ident(rng), topic_id: ident(rng), group_id: ident(rng) });
    add!(LeaveConsumerGroup, LeaveConsumerGroup { stream_id: ident(rng), topic_id: ident(rng), group_id: ident(rng) });
    v
}

impl WireLens {
    pub fn new(work: &str) -> Self {
        WireLens { work: work.to_string() }
    }

    pub fn run_scenario(&self, idx: usize, scn: &Scenario, out: &mut TraceWriter) -> Result<(), String> {
        match scn.kind.as_str() {
            "roundtrip" => self.roundtrip(idx, scn, out),
            "garbage" => self.garbage(idx, scn, out),
            "messages" => self.messages(idx, scn, out),
            "crypto" => self.crypto(idx, scn, out),
            k => Err(format!("unknown kind {k}")),
        }
    }

    fn roundtrip(&self, idx: usize, scn: &Scenario, out: &mut TraceWriter) -> Result<(), String> {
        let mut rng = Rng(scn.seed ^ 0x3177);
        out.emit(&json!({"ev":"reset","sc":idx,"id":scn.id,"kind":"roundtrip"}));
        let mut i = 0u64;
        for _ in 0..scn.per_type {
            for (ty, bytes, expected, sdk_valid) in instances(&mut rng) {
                i += 1;
                let len = bytes.len();
                let res = std::panic::catch_unwind(std::panic::AssertUnwindSafe(|| SC::from_bytes(bytes.clone())));
                let (decode, equal, valid_agree) = match res {
                    Err(_) => ("panic".to_string(), false, false),
                    Ok(Err(e)) => (format!("err:{}", e.as_string()), false, false),
                    Ok(Ok(got)) => {
                        let eq = got == expected;
                        let server_valid = got.validate().is_ok();
                        ("ok".to_string(), eq, server_valid == sdk_valid)
                    }
                };
                out.emit(&json!({"ev":"roundtrip","sc":idx,"i":i,"type":ty,"len":len,"decode":decode,"equal":equal,"valid_agree":valid_agree,
                                 "sdk_valid":sdk_valid}));
            }
        }
        Ok(())
    }

    /// Response fidelity of polls: messages with boundary payload lengths (from 1 byte), with and without headers of every
    /// kind, explicit and server-assigned ids, are sent over TCP and HTTP and polled back over both in every window
    /// (offset, count) - so every message is, among others, the LAST one of a response - and compared with what was sent.
    fn messages(&self, idx: usize, scn: &Scenario, out: &mut TraceWriter) -> Result<(), String> {
        use iggy::client::Client as _;
        let dir = format!("{}/d{}", self.work, idx);
        let _ = std::fs::remove_dir_all(&dir);
        std::fs::create_dir_all(&dir).map_err(|e| e.to_string())?;
        let config = srv::build_config(&dir, &scn.cfg, srv::ENC_KEY_A);
        let mut cfg = scn.cfg.clone();
        cfg.transport = "quic".into(); // the QUIC listener too: all three transports answer the same polls
        let inc = srv::start(config, &cfg, true)?;
        let rt = &inc.rt;
        let tcp = rt.block_on(srv::tcp_root(inc.tcp))?;
        let http = rt.block_on(srv::http_root(inc.http.unwrap()))?;
        let quic = rt.block_on(srv::quic_root(inc.quic.unwrap()))?;
        let s1 = Identifier::numeric(1).unwrap();
        let t1 = Identifier::numeric(1).unwrap();
        rt.block_on(async {
            tcp.create_stream("vstream", Some(1)).await.map_err(|e| e.to_string())?;
            tcp.create_topic(&s1, "vtopic", 1, CompressionAlgorithm::None, None, Some(1), IggyExpiry::NeverExpire, MaxTopicSize::Unlimited).await.map_err(|e| e.to_string())?;
            Ok::<(), String>(())
        })?;
        out.emit(&json!({"ev":"reset","sc":idx,"id":scn.id,"kind":"messages"}));
        let mut rng = Rng(scn.seed ^ 0x9e55);
        fn fnv(data: &[u8]) -> u64 {
            let mut h: u64 = 0xcbf29ce484222325;
            for b in data {
                h ^= *b as u64;
                h = h.wrapping_mul(0x100000001b3);
            }
            h % 1_000_000_007
        }
        fn hdigest(h: &Option<HashMap<HeaderKey, HeaderValue>>) -> (u64, u64) {
            match h {
                None => (0, 0),
                Some(m) => {
                    let mut items: Vec<String> = m.iter().map(|(k, v)| format!("{}={:?}:{:?}", k.as_str(), v.kind, v.value)).collect();
                    items.sort();
                    (m.len() as u64, fnv(items.join("|").as_bytes()))
                }
            }
        }
        let lens = [1usize, 1, 2, 3, 4, 5, 7, 8, 9, 15, 16, 17, 31, 32, 33, 63, 64, 65, 127, 128, 255, 256, 257, 1000, 4096];
        let total = scn.per_type.max(8) as usize;
        // expected digest per offset: [offset, explicit id (0: server-assigned), payload length, payload hash, header count, header hash]
        let mut expect: Vec<Vec<u64>> = vec![];
        while expect.len() < total {
            let k = 1 + rng.below(4) as usize;
            let mut msgs = vec![];
            for _ in 0..k {
                let n = if rng.chance(2, 3) { lens[rng.below(lens.len() as u64) as usize] } else { 1 + rng.below(300) as usize };
                let payload: Vec<u8> = (0..n).map(|_| rng.next() as u8).collect();
                let hs = if rng.chance(1, 2) { None } else { headers(&mut rng) };
                let id: u128 = if rng.chance(1, 2) { 0 } else { 1 + rng.next() as u128 };
                let (hc, hh) = hdigest(&hs);
                expect.push(vec![expect.len() as u64, (id % 1_000_000_007) as u64, n as u64, fnv(&payload), hc, hh]);
                msgs.push(Message::new(if id == 0 { None } else { Some(id) }, Bytes::from(payload), hs));
            }
            let via = rng.below(4);
            let r = rt.block_on(async {
                match via {
                    0 => http.send_messages(&s1, &t1, &Partitioning::partition_id(1), &mut msgs).await,
                    1 => quic.send_messages(&s1, &t1, &Partitioning::partition_id(1), &mut msgs).await,
                    _ => tcp.send_messages(&s1, &t1, &Partitioning::partition_id(1), &mut msgs).await,
                }
            });
            if let Err(e) = r {
                return Err(format!("send failed: {e}"));
            }
        }
        let cons = Consumer::new(Identifier::numeric(7).unwrap());
        let n = expect.len() as u64;
        let mut i = 0u64;
        let mut windows: Vec<(u64, u32)> = vec![(0, n as u32), (0, (n + 10) as u32)];
        for o in 0..n {
            for c in [1u32, 2, 3] {
                windows.push((o, c));
            }
        }
        for (o, c) in windows {
            for transport in ["tcp", "http", "quic"] {
                i += 1;
                let r = rt.block_on(async {
                    match transport {
                        "tcp" => tcp.poll_messages(&s1, &t1, Some(1), &cons, &PollingStrategy::offset(o), c, false).await,
                        "quic" => quic.poll_messages(&s1, &t1, Some(1), &cons, &PollingStrategy::offset(o), c, false).await,
                        _ => http.poll_messages(&s1, &t1, Some(1), &cons, &PollingStrategy::offset(o), c, false).await,
                    }
                });
                let want: Vec<Vec<u64>> = expect.iter().skip(o as usize).take(c as usize).cloned().collect();
                match r {
                    Ok(pm) => {
                        let got: Vec<Vec<u64>> = pm.messages.iter().map(|m| {
                            let (hc, hh) = hdigest(&m.headers);
                            let exp_id = expect.get(m.offset as usize).map(|e| e[1]).unwrap_or(0);
                            // a server-assigned id cannot be predicted: it is compared only when the sender chose it
                            vec![m.offset, if exp_id == 0 { 0 } else { (m.id % 1_000_000_007) as u64 }, m.payload.len() as u64, fnv(&m.payload), hc, hh]
                        }).collect();
                        out.emit(&json!({"ev":"pollback","sc":idx,"i":i,"transport":transport,"o":o,"c":c,"res":"ok","want":want,"got":got,
                                         "cur":pm.current_offset,"cur_want":n - 1}));
                    }
                    Err(e) => {
                        out.emit(&json!({"ev":"pollback","sc":idx,"i":i,"transport":transport,"o":o,"c":c,"res":crate::util::err_class(&e),"want":want,"got":[],
                                         "cur":0,"cur_want":n - 1}));
                    }
                }
            }
        }
        drop(tcp);
        drop(http);
        drop(quic);
        let _ = srv::stop(inc, false);
        let _ = std::fs::remove_dir_all(&dir);
        Ok(())
    }

    /// The encryptor the server and the SDK share (C19): for EVERY length 0..=600 (and some larger ones) decrypt(encrypt(x)) = x,
    /// the ciphertext does not contain the plaintext, another key and every truncation / bit flip give an error - never a
    /// panic, never different content.
    fn crypto(&self, idx: usize, scn: &Scenario, out: &mut TraceWriter) -> Result<(), String> {
        use iggy::utils::crypto::{Aes256GcmEncryptor, Encryptor};
        let a = Aes256GcmEncryptor::from_base64_key(srv::ENC_KEY_A).map_err(|e| e.to_string())?;
        let b = Aes256GcmEncryptor::from_base64_key(srv::ENC_KEY_B).map_err(|e| e.to_string())?;
        out.emit(&json!({"ev":"reset","sc":idx,"id":scn.id,"kind":"crypto"}));
        let mut rng = Rng(scn.seed ^ 0xc19);
        let mut lens: Vec<usize> = (0..=600).collect();
        lens.extend([1023, 1024, 1025, 4095, 4096, 65535, 65536, 1_000_000]);
        let guard = |f: &dyn Fn() -> Result<Vec<u8>, iggy::error::IggyError>| -> (String, Vec<u8>) {
            match std::panic::catch_unwind(std::panic::AssertUnwindSafe(f)) {
                Ok(Ok(v)) => ("ok".into(), v),
                Ok(Err(_)) => ("error".into(), vec![]),
                Err(_) => ("panic".into(), vec![]),
            }
        };
        for (i, n) in lens.iter().enumerate() {
            let plain: Vec<u8> = (0..*n).map(|_| rng.next() as u8).collect();
            let (er, ct) = guard(&|| a.encrypt(&plain));
            let (dr, back) = guard(&|| a.decrypt(&ct));
            let (wr, wrong) = guard(&|| b.decrypt(&ct));
            // damaged ciphertexts: a few truncations and single bit flips
            let mut damaged_ok = 0u64;
            let mut damaged_panic = 0u64;
            let mut tried = 0u64;
            if er == "ok" {
                let mut cuts: Vec<usize> = vec![0, 1, 11, 12, 13, 27, 28, 29, ct.len().saturating_sub(1)];
                cuts.retain(|c| *c < ct.len());
                for c in cuts {
                    tried += 1;
                    let (r, v) = guard(&|| a.decrypt(&ct[..c]));
                    if r == "ok" && v != plain[..] { damaged_ok += 1 } else if r == "ok" { damaged_ok += 1 }
                    if r == "panic" { damaged_panic += 1 }
                }
                for _ in 0..4 {
                    tried += 1;
                    let mut x = ct.clone();
                    let pos = rng.below(x.len() as u64) as usize;
                    x[pos] ^= 1 << rng.below(8);
                    let (r, _) = guard(&|| a.decrypt(&x));
                    if r == "ok" { damaged_ok += 1 }
                    if r == "panic" { damaged_panic += 1 }
                }
            }
            let contains_plain = *n >= 8 && ct.windows(*n.min(&16)).any(|w| w == &plain[..*n.min(&16)]);
            out.emit(&json!({"ev":"crypto","sc":idx,"i":i + 1,"n":n,"encrypt":er,"decrypt":dr,"equal":back == plain,"other_key":wr,
                             "other_key_equal": wr == "ok" && wrong == plain, "in_clear":contains_plain,
                             "damaged_tried":tried,"damaged_ok":damaged_ok,"damaged_panic":damaged_panic}));
        }
        Ok(())
    }

    fn garbage(&self, idx: usize, scn: &Scenario, out: &mut TraceWriter) -> Result<(), String> {
        let dir = format!("{}/d{}", self.work, idx);
        let _ = std::fs::remove_dir_all(&dir);
        std::fs::create_dir_all(&dir).map_err(|e| e.to_string())?;
        let mut cfg = scn.cfg.clone();
        cfg.threads = 2; // raw blocking sockets from this thread need the server to run on its own threads
        let config = srv::build_config(&dir, &cfg, srv::ENC_KEY_A);
        let inc = srv::start(config, &cfg, false)?;
        let rt = &inc.rt;
        let admin = rt.block_on(srv::tcp_root(inc.tcp))?;
        rt.block_on(async {
            admin.create_stream("vstream", Some(1)).await.map_err(|e| e.to_string())?;
            admin.create_topic(&Identifier::numeric(1).unwrap(), "vtopic", 1, CompressionAlgorithm::None, None, Some(1),
                IggyExpiry::NeverExpire, MaxTopicSize::Unlimited).await.map_err(|e| e.to_string())?;
            Ok::<(), String>(())
        })?;
        out.emit(&json!({"ev":"reset","sc":idx,"id":scn.id,"kind":"garbage"}));
        let mut rng = Rng(scn.seed ^ 0x6a7b);
        let mut sent_ok = 0u64;
        let fingerprint = |rt: &tokio::runtime::Runtime| -> String {
            rt.block_on(async {
                let s = admin.get_streams().await.map(|v| v.iter().map(|s| format!("{}:{}:{}:{}", s.id, s.name, s.topics_count, s.messages_count)).collect::<Vec<_>>());
                let u = admin.get_users().await.map(|v| v.len());
                format!("{s:?}|{u:?}")
            })
        };
        for i in 1..=scn.per_type {
            // the second connection keeps working: one send + one poll per round
            let other_ok = rt.block_on(async {
                let mut msgs = vec![Message::new(None, Bytes::from(format!("m{i}")), None)];
                let s = admin.send_messages(&Identifier::numeric(1).unwrap(), &Identifier::numeric(1).unwrap(), &Partitioning::partition_id(1), &mut msgs).await.is_ok();
                let p = admin.poll_messages(&Identifier::numeric(1).unwrap(), &Identifier::numeric(1).unwrap(), Some(1), &Consumer::new(Identifier::numeric(1).unwrap()),
                    &PollingStrategy::offset(0), 1000, false).await;
                sent_ok += s as u64;
                s && p.map(|p| p.messages.len() as u64 == sent_ok).unwrap_or(false)
            });
            let before = fingerprint(rt);
            // a raw connection, optionally logged in first (garbage "at any point of a session")
            let logged_in = rng.chance(1, 2);
            let mut sock = std::net::TcpStream::connect(inc.tcp).map_err(|e| e.to_string())?;
            // an answer that IS expected is waited for generously (a loaded machine must not look like a silent server)
            sock.set_read_timeout(Some(std::time::Duration::from_secs(30))).ok();
            if logged_in {
                let login = iggy::users::login_user::LoginUser { username: "iggy".into(), password: "iggy".into(), version: None, context: None };
                let f = frame(&login);
                let mut b = BytesMut::new();
                b.put_u32_le(f.len() as u32);
                b.put_slice(&f);
                sock.write_all(&b).ok();
                let mut hdr = [0u8; 8];
                let ok = sock.read_exact(&mut hdr).is_ok() && u32::from_le_bytes([hdr[0], hdr[1], hdr[2], hdr[3]]) == 0;
                let l = u32::from_le_bytes([hdr[4], hdr[5], hdr[6], hdr[7]]) as usize;
                let mut body = vec![0u8; l.min(1 << 20)];
                if !ok || sock.read_exact(&mut body).is_err() {
                    return Err("raw login on the garbage connection failed".into());
                }
            }
            let kind = ["bad_len_short", "bad_len_long", "unknown_code", "truncated_payload", "random_body", "zero_len", "huge_len_small_body", "valid_code_empty"][rng.below(8) as usize];
            let mut b = BytesMut::new();
            let valid = instances(&mut rng);
            let (_, vf, _, _) = &valid[rng.below(valid.len() as u64) as usize];
            match kind {
                "bad_len_short" => { b.put_u32_le((vf.len() / 2) as u32); b.put_slice(vf); }
                "bad_len_long" => { b.put_u32_le(vf.len() as u32 + 50); b.put_slice(vf); }
                "unknown_code" => { b.put_u32_le(8); b.put_u32_le(9000 + rng.below(1000) as u32); b.put_u32_le(7); }
                "truncated_payload" => { let cut = 4 + rng.below((vf.len().max(5) - 4) as u64) as usize; b.put_u32_le(cut.min(vf.len()) as u32); b.put_slice(&vf[..cut.min(vf.len())]); }
                "random_body" => { let n = 4 + rng.below(200) as usize; b.put_u32_le(n as u32); b.put_slice(&vf[..4]); for _ in 4..n { b.put_u8(rng.next() as u8); } }
                "zero_len" => { b.put_u32_le(0); }
                "huge_len_small_body" => { b.put_u32_le(64 * 1024 * 1024); b.put_slice(&vf[..vf.len().min(16)]); }
                _ => { b.put_u32_le(4); b.put_slice(&vf[..4]); }
            }
            // is what was sent by accident a complete valid request? (a cut at the full length, a command without payload)
            let declared = u32::from_le_bytes([b[0], b[1], b[2], b[3]]) as usize;
            let body = b[4..].to_vec();
            let incomplete = declared > body.len();
            let is_valid = !incomplete && declared >= 4 && std::panic::catch_unwind(std::panic::AssertUnwindSafe(|| {
                SC::from_bytes(Bytes::from(body[..declared].to_vec())).map(|c| c.validate().is_ok()).unwrap_or(false)
            })).unwrap_or(false);
            sock.write_all(&b).ok();
            // the server keeps waiting for the rest of an incomplete frame: "no answer" is then the expected outcome
            sock.set_read_timeout(Some(if incomplete { std::time::Duration::from_millis(300) } else { std::time::Duration::from_secs(30) })).ok();
            let mut hdr = [0u8; 8];
            let outcome = match sock.read_exact(&mut hdr) {
                Ok(()) => {
                    let status = u32::from_le_bytes([hdr[0], hdr[1], hdr[2], hdr[3]]);
                    if status == 0 { "ok_response" } else { "error_response" }
                }
                Err(e) if e.kind() == std::io::ErrorKind::WouldBlock || e.kind() == std::io::ErrorKind::TimedOut => "no_answer",
                Err(_) => "closed",
            };
            drop(sock);
            let after = fingerprint(rt);
            let still = rt.block_on(async { admin.get_streams().await.is_ok() });
            out.emit(&json!({"ev":"garbage","sc":idx,"i":i,"kind":kind,"logged_in":logged_in,"outcome":outcome,"unchanged":before == after,
                             "other_ok":other_ok && still,"is_valid":is_valid,"incomplete":incomplete}));
        }
        drop(admin);
        let _ = srv::stop(inc, false);
        let _ = std::fs::remove_dir_all(&dir);
        Ok(())
    }
}
