//! Concurrency lens (C12): several producers and pollers (own TCP connections) hammer ONE partition of a server running on a
//! multi-thread runtime, with flushes and background saves in between. Every call is logged with global sequence numbers
//! taken before the request is issued (t0) and after the response arrived (t1); after quiescence the final full read F is
//! taken. Nothing is judged here: the recorded history is validated against specs/IggyLogMT.tla by TLC.
use crate::srv::{self, ScnConfig};
use crate::util::{res_of, Rng, TraceWriter};
use bytes::Bytes;
use iggy::client::{MessageClient, StreamClient, TopicClient};
use iggy::compression::compression_algorithm::CompressionAlgorithm;
use iggy::consumer::Consumer;
use iggy::identifier::Identifier;
use iggy::messages::poll_messages::PollingStrategy;
use iggy::messages::send_messages::{Message, Partitioning};
use iggy::utils::expiry::IggyExpiry;
use iggy::utils::topic_size::MaxTopicSize;
use serde::Deserialize;
use serde_json::{json, Value};
use std::sync::atomic::{AtomicU64, Ordering};
use std::sync::{Arc, Mutex};

#[derive(Debug, Clone, Deserialize)]
pub struct Scenario {
    pub id: String,
    #[serde(default)]
    pub cfg: ScnConfig,
    #[serde(default)]
    pub seed: u64,
    #[serde(default = "two")]
    pub producers: u64,
    #[serde(default = "two")]
    pub pollers: u64,
    #[serde(default = "ten")]
    pub batches: u64,
    #[serde(default = "ten")]
    pub polls: u64,
}
fn two() -> u64 {
    2
}
fn ten() -> u64 {
    10
}

pub struct MtLens {
    pub work: String,
}

fn parse_m(payload: &[u8]) -> i64 {
    if payload.len() >= 11 && &payload[0..3] == b"<<M" {
        if let Ok(s) = std::str::from_utf8(&payload[3..9]) {
            return s.parse::<i64>().unwrap_or(-1);
        }
    }
    -1
}

impl MtLens {
    pub fn new(work: &str) -> Self {
        MtLens { work: work.to_string() }
    }

    pub fn run_scenario(&self, idx: usize, scn: &Scenario, out: &mut TraceWriter) -> Result<(), String> {
        let dir = format!("{}/d{}", self.work, idx);
        let _ = std::fs::remove_dir_all(&dir);
        std::fs::create_dir_all(&dir).map_err(|e| e.to_string())?;
        let mut cfg = scn.cfg.clone();
        if cfg.threads == 0 {
            cfg.threads = 4;
        }
        let config = srv::build_config(&dir, &cfg, srv::ENC_KEY_A);
        let inc = srv::start(config, &cfg, false)?;
        let tcp = inc.tcp;
        let admin = inc.rt.block_on(srv::tcp_root(tcp))?;
        inc.rt.block_on(async {
            admin.create_stream("vstream", Some(1)).await.map_err(|e| e.to_string())?;
            admin.create_topic(&Identifier::numeric(1).unwrap(), "vtopic", 1, CompressionAlgorithm::None, None, Some(1),
                IggyExpiry::NeverExpire, MaxTopicSize::Unlimited).await.map_err(|e| e.to_string())?;
            Ok::<(), String>(())
        })?;
        let clock = Arc::new(AtomicU64::new(1));
        let events: Arc<Mutex<Vec<Value>>> = Arc::new(Mutex::new(vec![]));
        let s1 = Identifier::numeric(1).unwrap();
        let t1 = Identifier::numeric(1).unwrap();
        let mut handles = vec![];
        let total_msgs_hint = scn.producers * scn.batches * 3;
        for p in 0..scn.producers {
            let (clock, events, s1, t1) = (clock.clone(), events.clone(), s1.clone(), t1.clone());
            let mut rng = Rng(scn.seed ^ (0x51 + p * 7919));
            let batches = scn.batches;
            handles.push(inc.rt.spawn(async move {
                let c = match srv::tcp_root(tcp).await {
                    Ok(c) => c,
                    Err(_) => return,
                };
                for b in 0..batches {
                    let k = 1 + rng.below(3);
                    let mut msgs = vec![];
                    let mut ms = vec![];
                    for j in 0..k {
                        // message number: producer, batch, position - unique and ordered within a producer
                        let m = (p + 1) * 100_000 + b * 10 + j;
                        let mut payload = format!("<<M{:06}>>", m).into_bytes();
                        for _ in 0..rng.below(24) {
                            payload.push(b'a' + (rng.below(26) as u8));
                        }
                        msgs.push(Message::new(None, Bytes::from(payload), None));
                        ms.push(m);
                    }
                    let t0 = clock.fetch_add(1, Ordering::SeqCst);
                    let r = c.send_messages(&s1, &t1, &Partitioning::partition_id(1), &mut msgs).await;
                    let t1v = clock.fetch_add(1, Ordering::SeqCst);
                    events.lock().unwrap().push(json!({"ev":"send","who":p + 1,"b":b,"t0":t0,"t1":t1v,"ms":ms,"res":res_of(&r)}));
                    if rng.chance(1, 3) {
                        tokio::task::yield_now().await;
                    }
                }
            }));
        }
        for r in 0..scn.pollers {
            let (clock, events, s1, t1) = (clock.clone(), events.clone(), s1.clone(), t1.clone());
            let mut rng = Rng(scn.seed ^ (0x9d + r * 104729));
            let polls = scn.polls;
            handles.push(inc.rt.spawn(async move {
                let c = match srv::tcp_root(tcp).await {
                    Ok(c) => c,
                    Err(_) => return,
                };
                let cons = Consumer::new(Identifier::numeric(500 + r as u32).unwrap());
                let mut known_cur: u64 = 0;
                for _ in 0..polls {
                    // ranges biased to the tail of what this poller has seen so far
                    let o = if rng.chance(1, 3) { rng.below(known_cur + 2) } else { known_cur.saturating_sub(rng.below(4)) };
                    let wide = rng.chance(1, 4);
                    let n = 1 + rng.below(if wide { total_msgs_hint + 2 } else { 6 }) as u32;
                    let t0 = clock.fetch_add(1, Ordering::SeqCst);
                    let res = c.poll_messages(&s1, &t1, Some(1), &cons, &PollingStrategy::offset(o), n, false).await;
                    let t1v = clock.fetch_add(1, Ordering::SeqCst);
                    let (rr, cur) = match &res {
                        Ok(pm) => (pm.messages.iter().map(|m| json!([m.offset, parse_m(&m.payload)])).collect::<Vec<_>>(), pm.current_offset),
                        Err(_) => (vec![], known_cur),
                    };
                    known_cur = known_cur.max(cur);
                    events.lock().unwrap().push(json!({"ev":"poll","who":r + 1,"t0":t0,"t1":t1v,"o":o,"n":n,"r":rr,"res":res_of(&res)}));
                    if rng.chance(1, 4) {
                        tokio::time::sleep(std::time::Duration::from_micros(rng.below(300))).await;
                    }
                }
            }));
        }
        // a task that flushes / saves in the background while the others run
        {
            let (s1, t1) = (s1.clone(), t1.clone());
            let system = inc.system.clone();
            let mut rng = Rng(scn.seed ^ 0xf1);
            let rounds = scn.batches;
            handles.push(inc.rt.spawn(async move {
                let c = match srv::tcp_root(tcp).await {
                    Ok(c) => c,
                    Err(_) => return,
                };
                for _ in 0..rounds {
                    if rng.chance(1, 2) {
                        let _ = c.flush_unsaved_buffer(&s1, &t1, 1, false).await;
                    } else {
                        let _ = system.read().await.persist_messages().await;
                    }
                    tokio::time::sleep(std::time::Duration::from_micros(200 + rng.below(800))).await;
                }
            }));
        }
        inc.rt.block_on(async {
            for h in handles {
                let _ = h.await;
            }
        });
        // quiescence: flush, and (no-wait) wait until the background persister has drained: the full read is stable
        let obsc = Consumer::new(Identifier::numeric(9999).unwrap());
        let mut final_read: Vec<(u64, i64)> = vec![];
        for _round in 0..200 {
            let r = inc.rt.block_on(async {
                let _ = admin.flush_unsaved_buffer(&s1, &t1, 1, false).await;
                admin.poll_messages(&s1, &t1, Some(1), &obsc, &PollingStrategy::offset(0), (total_msgs_hint + 10) as u32, false).await
            }).map_err(|e| format!("final read: {e}"))?;
            let cur: Vec<(u64, i64)> = r.messages.iter().map(|m| (m.offset, parse_m(&m.payload))).collect();
            let stable = cur == final_read && (cur.len() as u64 == r.current_offset + 1 || cur.is_empty());
            final_read = cur;
            if stable {
                break;
            }
            std::thread::sleep(std::time::Duration::from_millis(5));
        }
        let mut evs = std::mem::take(&mut *events.lock().unwrap());
        evs.sort_by_key(|e| e["t0"].as_u64().unwrap_or(0));
        out.emit(&json!({"ev":"reset","sc":idx,"id":scn.id,"cfg":serde_json::to_value(&scn.cfg).unwrap()}));
        out.emit(&json!({"ev":"history","sc":idx,"i":1,"nowait": scn.cfg.confirmation == "no_wait",
                         "final": final_read.iter().map(|(o, m)| json!([o, m])).collect::<Vec<_>>(),
                         "sends": evs.iter().filter(|e| e["ev"] == "send").cloned().collect::<Vec<_>>(),
                         "polls": evs.iter().filter(|e| e["ev"] == "poll").cloned().collect::<Vec<_>>()}));
        drop(admin);
        let _ = srv::stop(inc, false);
        let _ = std::fs::remove_dir_all(&dir);
        Ok(())
    }
}
