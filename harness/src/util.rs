//! Small helpers shared by the lenses.
use iggy::error::IggyError;
use serde_json::Value;
use std::io::Write;

pub fn res_of<T>(r: &Result<T, IggyError>) -> String {
    match r {
        Ok(_) => "ok".to_string(),
        Err(e) => err_class(e),
    }
}

pub fn err_class(e: &IggyError) -> String {
    match e {
        IggyError::Disconnected
        | IggyError::NotConnected
        | IggyError::EmptyResponse
        | IggyError::ConnectionClosed
        | IggyError::CannotEstablishConnection
        | IggyError::TcpError => "closed".to_string(),
        IggyError::Unauthenticated | IggyError::StaleClient => "unauthenticated".to_string(),
        IggyError::Unauthorized => "unauthorized".to_string(),
        other => format!("err:{}", other.as_string()),
    }
}

pub struct TraceWriter {
    out: std::io::BufWriter<std::fs::File>,
    pub lines: u64,
    /// integers beyond +-clamp are written as +-(clamp + 1), see `emit`
    pub clamp: u64,
}

impl TraceWriter {
    pub fn create(path: &str) -> Self {
        let f = std::fs::File::create(path).expect("cannot create trace file");
        TraceWriter {
            out: std::io::BufWriter::with_capacity(1 << 20, f),
            lines: 0,
            clamp: 2_000_000_000,
        }
    }
    pub fn emit(&mut self, v: &Value) {
        if v["ev"] == "reset" {
            // every finished scenario is on disk before the next one starts (a watchdog may end the process, see `Watchdog`)
            self.out.flush().expect("flush trace");
        }
        // TLC's integers are 32 bits: a wild figure (an underflowed counter of the code under test) is data, not a reason for the
        // validation to fail - it is clamped (the lenses whose specifications ADD observed figures use a lower limit, so that a few wild values still add up within 32 bits)
        fn clamp(v: &Value, lim: u64) -> Value {
            match v {
                Value::Number(n) => {
                    if let Some(u) = n.as_u64() {
                        if u > lim { return serde_json::json!(lim + 1); }
                    } else if let Some(i) = n.as_i64() {
                        if i < -(lim as i64) { return serde_json::json!(-(lim as i64) - 1); }
                    }
                    v.clone()
                }
                Value::Array(a) => Value::Array(a.iter().map(|x| clamp(x, lim)).collect()),
                Value::Object(o) => Value::Object(o.iter().map(|(k, x)| (k.clone(), clamp(x, lim))).collect()),
                _ => v.clone(),
            }
        }
        let v = &clamp(v, self.clamp);
        serde_json::to_writer(&mut self.out, v).expect("write trace");
        self.out.write_all(b"\n").expect("write trace");
        self.lines += 1;
    }
    pub fn flush(&mut self) {
        self.out.flush().expect("flush trace");
    }
}

/// index of the scenario being executed (for the watchdog's report)
pub static CURRENT_SCENARIO: std::sync::atomic::AtomicUsize = std::sync::atomic::AtomicUsize::new(0);

/// A hang of the code under test is data, not a tool failure: while armed, a watchdog thread ends the process with exit code 3
/// after `secs` seconds, reporting on stdout which scenario hung and where. The traces of the scenarios finished before are on
/// disk (see `TraceWriter::emit`); the driver reports the hanging scenario as a violation.
pub struct Watchdog(std::sync::Arc<std::sync::atomic::AtomicBool>);
impl Watchdog {
    pub fn arm(label: &str, secs: u64) -> Watchdog {
        let done = std::sync::Arc::new(std::sync::atomic::AtomicBool::new(false));
        let (d, label) = (done.clone(), label.to_string());
        std::thread::spawn(move || {
            let t0 = std::time::Instant::now();
            while t0.elapsed().as_secs() < secs {
                if d.load(std::sync::atomic::Ordering::SeqCst) {
                    return;
                }
                std::thread::sleep(std::time::Duration::from_millis(50));
            }
            if !d.load(std::sync::atomic::Ordering::SeqCst) {
                println!("{}", serde_json::json!({"hang": {"scenario": CURRENT_SCENARIO.load(std::sync::atomic::Ordering::SeqCst), "where": label, "after_s": secs}}));
                std::process::exit(3);
            }
        });
        Watchdog(done)
    }
}
impl Drop for Watchdog {
    fn drop(&mut self) {
        self.0.store(true, std::sync::atomic::Ordering::SeqCst);
    }
}

/// Deterministic splitmix64 - all harness randomness derives from the scenario seed.
#[derive(Clone)]
pub struct Rng(pub u64);
impl Rng {
    pub fn next(&mut self) -> u64 {
        self.0 = self.0.wrapping_add(0x9E3779B97F4A7C15);
        let mut z = self.0;
        z = (z ^ (z >> 30)).wrapping_mul(0xBF58476D1CE4E5B9);
        z = (z ^ (z >> 27)).wrapping_mul(0x94D049BB133111EB);
        z ^ (z >> 31)
    }
    pub fn below(&mut self, n: u64) -> u64 {
        if n == 0 {
            0
        } else {
            self.next() % n
        }
    }
    pub fn chance(&mut self, num: u64, den: u64) -> bool {
        self.below(den) < num
    }
}

pub fn dir_size_files(root: &str) -> Vec<(String, u64)> {
    let mut out = vec![];
    fn walk(p: &std::path::Path, out: &mut Vec<(String, u64)>) {
        if let Ok(rd) = std::fs::read_dir(p) {
            for e in rd.flatten() {
                let path = e.path();
                if path.is_dir() {
                    walk(&path, out);
                } else if let Ok(md) = e.metadata() {
                    out.push((path.to_string_lossy().to_string(), md.len()));
                }
            }
        }
    }
    walk(std::path::Path::new(root), &mut out);
    out.sort();
    out
}

/// Occurrences of `needle` in any file under `root` (plaintext / secret scans).
pub fn scan_files_for(root: &str, needles: &[Vec<u8>]) -> u64 {
    let mut hits = 0;
    for (path, _) in dir_size_files(root) {
        if let Ok(data) = std::fs::read(&path) {
            for n in needles {
                if n.is_empty() || data.len() < n.len() {
                    continue;
                }
                if data.windows(n.len()).any(|w| w == &n[..]) {
                    hits += 1;
                }
            }
        }
    }
    hits
}
