//! Journal lens (C11): (1) forced interleavings / injected append failures of concurrent `FileState::apply` calls through
//! the schedule-point and fault hooks; (2) tamper sweep: every single-byte mutation, truncation and entry permutation of
//! a valid journal is loaded by the real loader and classified against the true history.
use crate::srv;
use crate::util::{Rng, TraceWriter};
use iggy::models::permissions::Permissions;
use iggy::models::user_status::UserStatus;
use iggy::streams::create_stream::CreateStream;
use iggy::streams::delete_stream::DeleteStream;
use iggy::users::create_user::CreateUser;
use iggy::utils::crypto::{Aes256GcmEncryptor, EncryptorKind};
use iggy::identifier::Identifier;
use serde::Deserialize;
use serde_json::{json, Value};
use server::state::command::EntryCommand;
use server::state::file::FileState;
use server::state::State;
use server::streaming::persistence::persister::{FilePersister, PersisterKind};
use server::versioning::SemanticVersion;
use std::sync::atomic::{AtomicUsize, Ordering};
use std::sync::Arc;

#[derive(Debug, Clone, Deserialize)]
pub struct Scenario {
    pub id: String,
    #[serde(default)]
    pub seed: u64,
    pub kind: String, // "sched" | "tamper"
    #[serde(default)]
    pub encrypted: bool,
    /// tamper: number of entries; sched: entries written before the concurrent appliers start
    #[serde(default = "three")]
    pub entries: usize,
    /// sched: order[k] = which applier (0-based, in index-allocation order) is allowed to append k-th
    #[serde(default)]
    pub order: Vec<usize>,
    /// sched: appliers whose append fails
    #[serde(default)]
    pub faults: Vec<usize>,
    /// tamper: also try the mutations that make a length field huge
    #[serde(default)]
    pub huge: bool,
}
fn three() -> usize {
    3
}

pub struct JrnLens {
    pub work: String,
}

fn encryptor(on: bool) -> Option<Arc<EncryptorKind>> {
    if on {
        Some(Arc::new(EncryptorKind::Aes256Gcm(Aes256GcmEncryptor::from_base64_key(srv::ENC_KEY_A).unwrap())))
    } else {
        None
    }
}

fn new_state(path: &str, enc: bool) -> FileState {
    FileState::new(path, &SemanticVersion::current().unwrap(), Arc::new(PersisterKind::File(FilePersister)), encryptor(enc))
}

fn command(rng: &mut Rng, k: usize) -> EntryCommand {
    match rng.below(3) {
        0 => EntryCommand::CreateStream(CreateStream { stream_id: Some(k as u32 + 1), name: format!("stream-{}-{}", k, rng.below(100000)) }),
        1 => EntryCommand::CreateUser(CreateUser {
            username: format!("user{}x{}", k, rng.below(1000)),
            password: "$2b$04$abcdefghijklmnopqrstuuJrnLensHashedPasswordPlaceholder00".to_string(),
            status: UserStatus::Active,
            permissions: if rng.chance(1, 2) { Some(Permissions::root()) } else { None },
        }),
        _ => EntryCommand::DeleteStream(DeleteStream { stream_id: Identifier::named(&format!("gone-{}", rng.below(1000))).unwrap() }),
    }
}

impl JrnLens {
    pub fn new(work: &str) -> Self {
        JrnLens { work: work.to_string() }
    }

    pub fn run_scenario(&self, idx: usize, scn: &Scenario, out: &mut TraceWriter) -> Result<(), String> {
        let dir = format!("{}/j{}", self.work, idx);
        let _ = std::fs::remove_dir_all(&dir);
        std::fs::create_dir_all(&dir).map_err(|e| e.to_string())?;
        let r = match scn.kind.as_str() {
            "sched" => self.sched(idx, scn, &dir, out),
            "tamper" => self.tamper(idx, scn, &dir, out),
            k => Err(format!("unknown kind {k}")),
        };
        let _ = std::fs::remove_dir_all(&dir);
        r
    }

    fn sched(&self, idx: usize, scn: &Scenario, dir: &str, out: &mut TraceWriter) -> Result<(), String> {
        let rt = tokio::runtime::Builder::new_multi_thread().worker_threads(2).enable_all().build().map_err(|e| e.to_string())?;
        let path = format!("{dir}/log");
        let mut rng = Rng(scn.seed ^ 0x10a);
        let n = scn.order.len();
        out.emit(&json!({"ev":"reset","sc":idx,"id":scn.id,"kind":"sched"}));
        let result: Result<Value, String> = rt.block_on(async {
            let state = Arc::new(new_state(&path, scn.encrypted));
            state.init().await.map_err(|e| format!("init: {e}"))?;
            for k in 0..scn.entries {
                state.apply(1, command(&mut rng, k)).await.map_err(|e| format!("pre apply: {e}"))?;
            }
            let base = scn.entries as u64; // index the first concurrent applier will allocate (0 when the journal is empty)
            // turn = number of appliers that have finished their append (successfully or not)
            let turn = Arc::new(AtomicUsize::new(0));
            let order = scn.order.clone();
            let faults = scn.faults.clone();
            let turn_h = turn.clone();
            server::verif::set_point_hook(Some(Arc::new(move |name, index| {
                let turn = turn_h.clone();
                let order = order.clone();
                let faults = faults.clone();
                Box::pin(async move {
                    if name != "state.apply.allocated" {
                        return;
                    }
                    // which applier holds this index (allocation order = applier number; two appliers may share index 0 on an empty journal)
                    let applier = index.saturating_sub(base) as usize;
                    let my_pos = order.iter().position(|a| *a == applier).unwrap_or(0);
                    // wait (bounded: an implementation that serialises more than this schedule is fine) for my turn
                    let t0 = std::time::Instant::now();
                    while turn.load(Ordering::SeqCst) < my_pos && t0.elapsed() < std::time::Duration::from_millis(150) {
                        tokio::time::sleep(std::time::Duration::from_millis(1)).await;
                    }
                    if faults.contains(&applier) {
                        server::verif::fail_next_appends(1);
                    }
                })
            })));
            let mut handles = vec![];
            let mut acks = vec![];
            for a in 0..n {
                let st = state.clone();
                let cmd = command(&mut rng, 100 + a);
                let turn = turn.clone();
                handles.push(tokio::spawn(async move {
                    let r = st.apply(1, cmd).await;
                    turn.fetch_add(1, Ordering::SeqCst);
                    r.is_ok()
                }));
                // let the applier reach its schedule point before the next one starts, so that allocation order = applier number
                tokio::time::sleep(std::time::Duration::from_millis(3)).await;
            }
            for h in handles {
                acks.push(h.await.unwrap_or(false));
            }
            server::verif::set_point_hook(None);
            server::verif::fail_next_appends(0);
            // what is in the file, as the real loader sees it
            let fresh = new_state(&path, scn.encrypted);
            let (load, indices) = match fresh.init().await {
                Ok(entries) => ("ok".to_string(), entries.iter().map(|e| e.index).collect::<Vec<_>>()),
                Err(e) => (format!("err:{}", e.as_string()), vec![]),
            };
            // one more command after "restart" must also keep the journal loadable
            let again = if load == "ok" {
                let _ = fresh.apply(1, command(&mut rng, 999)).await;
                match new_state(&path, scn.encrypted).init().await {
                    Ok(entries) => {
                        let ix: Vec<u64> = entries.iter().map(|e| e.index).collect();
                        if ix.windows(2).all(|w| w[1] == w[0] + 1) { "ok".to_string() } else { "gap".to_string() }
                    }
                    Err(e) => format!("err:{}", e.as_string()),
                }
            } else {
                "skipped".to_string()
            };
            Ok(json!({"ev":"sched","sc":idx,"i":1,"pre":scn.entries,"order":scn.order,"faults":scn.faults,"acks":acks,
                      "load":load,"indices":indices,"again":again}))
        });
        rt.shutdown_timeout(std::time::Duration::from_secs(1));
        out.emit(&result?);
        Ok(())
    }

    fn tamper(&self, idx: usize, scn: &Scenario, dir: &str, out: &mut TraceWriter) -> Result<(), String> {
        let rt = tokio::runtime::Builder::new_current_thread().enable_all().build().map_err(|e| e.to_string())?;
        let path = format!("{dir}/log");
        let mut rng = Rng(scn.seed ^ 0x7a3);
        out.emit(&json!({"ev":"reset","sc":idx,"id":scn.id,"kind":"tamper"}));
        // a valid journal, with the file length after every entry (entry boundaries)
        let mut bounds = vec![0usize];
        rt.block_on(async {
            let state = new_state(&path, scn.encrypted);
            state.init().await.map_err(|e| format!("init: {e}"))?;
            for k in 0..scn.entries {
                state.apply(1, command(&mut rng, k)).await.map_err(|e| format!("apply: {e}"))?;
                tokio::time::sleep(std::time::Duration::from_millis(2)).await;
                bounds.push(std::fs::metadata(&path).map(|m| m.len() as usize).unwrap_or(0));
            }
            Ok::<(), String>(())
        })?;
        let original = std::fs::read(&path).map_err(|e| e.to_string())?;
        if *bounds.last().unwrap() != original.len() || bounds.windows(2).any(|w| w[1] <= w[0]) {
            return Err(format!("entry boundaries not observed: {bounds:?} file {}", original.len()));
        }
        let truth: Vec<(u64, u32, Vec<u8>)> = rt.block_on(async {
            new_state(&path, scn.encrypted).init().await.map(|es| es.iter().map(|e| (e.index, e.checksum, e.command.to_vec())).collect())
        }).map_err(|e| format!("pristine journal does not load: {e}"))?;
        if truth.len() != scn.entries {
            return Err("pristine journal has a different number of entries".into());
        }
        let mpath = format!("{dir}/mutated");
        let mut counts: std::collections::BTreeMap<String, u64> = Default::default();
        let mut i = 0u64;
        let mut try_one = |kind: &str, pos: usize, arg: i64, bytes: &[u8], suffix_loss: bool, out: &mut TraceWriter| {
            std::fs::write(&mpath, bytes).expect("write mutated journal");
            let res = std::panic::catch_unwind(std::panic::AssertUnwindSafe(|| {
                rt.block_on(async { new_state(&mpath, scn.encrypted).init().await })
            }));
            let (outcome, k) = match res {
                Err(_) => ("panic".to_string(), 0usize),
                Ok(Err(_)) => ("error".to_string(), 0),
                Ok(Ok(entries)) => {
                    let got: Vec<(u64, u32, Vec<u8>)> = entries.iter().map(|e| (e.index, e.checksum, e.command.to_vec())).collect();
                    if got == truth {
                        ("same".to_string(), got.len())
                    } else if got.len() < truth.len() && got[..] == truth[..got.len()] {
                        ("prefix".to_string(), got.len())
                    } else {
                        ("different".to_string(), got.len())
                    }
                }
            };
            *counts.entry(format!("{kind}:{outcome}")).or_insert(0) += 1;
            if outcome != "error" {
                i += 1;
                out.emit(&json!({"ev":"tamper","sc":idx,"i":i,"kind":kind,"pos":pos,"arg":arg,"outcome":outcome,"k":k,"n":truth.len(),
                                 "suffix_loss":suffix_loss}));
            }
        };
        // every byte: each single-bit flip, 0x00, 0xFF
        for pos in 0..original.len() {
            // offsets (inside its entry) of the two length fields' upper bytes: a mutation there can ask for a multi-GB buffer
            let start = *bounds.iter().rev().find(|b| **b <= pos).unwrap();
            let rel = pos - start;
            let in_len_hi = (50..52).contains(&rel); // context_length bytes 2..3 (header: 8+8+4+4+8+8+4+4 = 48, then u32 length)
            let mut vals: Vec<u8> = (0..8).map(|b| original[pos] ^ (1 << b)).collect();
            vals.push(0x00);
            vals.push(0xFF);
            vals.sort();
            vals.dedup();
            for v in vals {
                if v == original[pos] {
                    continue;
                }
                if in_len_hi && !scn.huge && !(pos % 7 == 0 && v == 0x01) {
                    continue; // multi-GB allocations: sampled in the quick tier, all of them in the thorough tier
                }
                let mut m = original.clone();
                m[pos] = v;
                try_one(if v == 0 || v == 0xFF { "set" } else { "flip" }, pos, v as i64, &m, false, out);
            }
        }
        // every truncation length (0 = empty file = loss of every entry)
        for len in 0..original.len() {
            try_one("truncate", len, 0, &original[..len], bounds.contains(&len), out);
        }
        // every entry removed / duplicated / swapped with another
        let n = scn.entries;
        let piece = |k: usize| &original[bounds[k]..bounds[k + 1]];
        for k in 0..n {
            let mut m = vec![];
            for j in 0..n {
                if j != k {
                    m.extend_from_slice(piece(j));
                }
            }
            try_one("drop", k, 0, &m, k == n - 1, out);
            let mut m = vec![];
            for j in 0..n {
                m.extend_from_slice(piece(j));
                if j == k {
                    m.extend_from_slice(piece(j));
                }
            }
            try_one("dup", k, 0, &m, false, out);
            for k2 in (k + 1)..n {
                let mut m = vec![];
                for j in 0..n {
                    m.extend_from_slice(piece(if j == k { k2 } else if j == k2 { k } else { j }));
                }
                try_one("swap", k, k2 as i64, &m, false, out);
            }
        }
        // garbage appended after a valid journal
        let mut m = original.clone();
        m.extend_from_slice(&[0u8; 7]);
        try_one("append_garbage", original.len(), 7, &m, false, out);
        drop(try_one);
        out.emit(&json!({"ev":"tamper_summary","sc":idx,"i":i + 1,"n":scn.entries,"bytes":original.len(),"encrypted":scn.encrypted,"counts":counts}));
        Ok(())
    }
}
