//! Authentication lens (C10): credential life cycle; after every step a login is attempted with every candidate
//! credential over TCP and HTTP, every connection is probed and the data directory is scanned for raw secrets.
use crate::srv::{self, Incarnation, ScnConfig};
use crate::util::{res_of, TraceWriter};
use iggy::client::{Client, PersonalAccessTokenClient, StreamClient, UserClient};
use iggy::http::client::HttpClient;
use iggy::identifier::Identifier;
use iggy::models::user_status::UserStatus;
use iggy::tcp::client::TcpClient;
use iggy::utils::duration::IggyDuration;
use iggy::utils::expiry::IggyExpiry;
use serde::Deserialize;
use serde_json::{json, Value};
use server::channels::commands::clean_personal_access_tokens::{
    CleanPersonalAccessTokensCommand, CleanPersonalAccessTokensExecutor,
};
use server::channels::server_command::ServerCommand;
use std::collections::BTreeMap;

#[derive(Debug, Clone, Deserialize)]
pub struct Scenario {
    pub id: String,
    #[serde(default)]
    pub cfg: ScnConfig,
    #[serde(default)]
    pub seed: u64,
    #[serde(default = "three")]
    pub conns: u32,
    /// model name -> concrete user name / password
    pub names: BTreeMap<String, String>,
    pub pwds: BTreeMap<String, String>,
    pub steps: Vec<Value>,
}
fn three() -> u32 {
    3
}

pub struct AuthLens {
    pub work: String,
}

struct Run<'a> {
    scn: &'a Scenario,
    dir: String,
    tick: u64,
    inc: Option<Incarnation>,
    conns: Vec<Option<TcpClient>>, // index 1..=conns ; 1 = root
    raw_tokens: BTreeMap<u64, String>, // model token id -> raw token
    pat_names: BTreeMap<u64, String>,
    /// root's user-administration commands go over HTTP in every second scenario (the HTTP handlers journal on their own)
    http_admin: Option<iggy::http::client::HttpClient>,
}

impl AuthLens {
    pub fn new(work: &str) -> Self {
        AuthLens { work: work.to_string() }
    }

    pub fn run_scenario(&self, idx: usize, scn: &Scenario, out: &mut TraceWriter) -> Result<(), String> {
        let dir = format!("{}/d{}", self.work, idx);
        let _ = std::fs::remove_dir_all(&dir);
        std::fs::create_dir_all(&dir).map_err(|e| e.to_string())?;
        srv::set_tick(0);
        let mut run = Run {
            scn,
            dir: dir.clone(),
            tick: 0,
            inc: None,
            conns: (0..=scn.conns).map(|_| None).collect(),
            raw_tokens: BTreeMap::new(),
            pat_names: BTreeMap::new(),
            http_admin: None,
        };
        let r = self.run_inner(idx, &mut run, out);
        run.conns.clear();
        if let Some(inc) = run.inc.take() {
            let _ = srv::stop(inc, false);
        }
        let _ = std::fs::remove_dir_all(&dir);
        r
    }

    fn start_inc(&self, run: &mut Run) -> Result<(), String> {
        let config = srv::build_config(&run.dir, &run.scn.cfg, srv::ENC_KEY_A);
        let inc = srv::start(config, &run.scn.cfg, true)?;
        for c in 1..run.conns.len() {
            let cl = if c == 1 {
                inc.rt.block_on(srv::tcp_root(inc.tcp))?
            } else {
                inc.rt.block_on(srv::tcp_connect(inc.tcp))?
            };
            run.conns[c] = Some(cl);
        }
        run.http_admin = if run.scn.seed % 2 == 1 { Some(inc.rt.block_on(srv::http_root(inc.http.unwrap()))?) } else { None };
        run.inc = Some(inc);
        Ok(())
    }

    fn run_inner(&self, idx: usize, run: &mut Run, out: &mut TraceWriter) -> Result<(), String> {
        let scn = run.scn;
        self.start_inc(run)?;
        out.emit(&json!({"ev":"reset","sc":idx,"id":scn.id,"conns":scn.conns,"cfg":serde_json::to_value(&scn.cfg).unwrap()}));
        for (i, step) in scn.steps.iter().enumerate() {
            let mut ev = self.exec_step(run, step)?;
            {
                let o = ev.as_object_mut().unwrap();
                o.insert("sc".into(), json!(idx));
                o.insert("i".into(), json!(i + 1));
            }
            if ev.get("fatal").is_some() {
                out.emit(&ev);
                break;
            }
            match self.observe(run) {
                Ok(obs) => {
                    ev.as_object_mut().unwrap().insert("obs".into(), obs);
                    out.emit(&ev);
                }
                Err(e) => {
                    ev.as_object_mut().unwrap().insert("fatal".into(), json!(format!("observe failed: {e}")));
                    out.emit(&ev);
                    break;
                }
            }
        }
        Ok(())
    }

    fn name<'b>(&self, run: &'b Run, model: &str) -> &'b str {
        run.scn.names.get(model).map(|s| s.as_str()).unwrap_or("unknown-user")
    }
    fn pwd<'b>(&self, run: &'b Run, model: &str) -> &'b str {
        run.scn.pwds.get(model).map(|s| s.as_str()).unwrap_or("unknown-pwd")
    }

    fn exec_step(&self, run: &mut Run, step: &Value) -> Result<Value, String> {
        let op = step["op"].as_str().ok_or("step without op")?.to_string();
        let c = step["c"].as_u64().unwrap_or(1) as usize;
        let mut ev = step.clone();
        {
            let o = ev.as_object_mut().unwrap();
            o.remove("op");
            o.insert("ev".into(), json!(op));
        }
        let mname = step["name"].as_str().unwrap_or("").to_string();
        let res: String = match op.as_str() {
            "login" => {
                let inc = run.inc.as_ref().unwrap();
                let cl = run.conns[c].as_ref().ok_or("no conn")?;
                res_of(&inc.rt.block_on(cl.login_user(self.name(run, &mname), self.pwd(run, step["pwd"].as_str().unwrap_or("")))))
            }
            "login_pat" => {
                let tok = step["tok"].as_u64().unwrap_or(0);
                let raw = run.raw_tokens.get(&tok).cloned().unwrap_or_else(|| "0123456789abcdef0123456789abcdef".to_string());
                let inc = run.inc.as_ref().unwrap();
                let cl = run.conns[c].as_ref().ok_or("no conn")?;
                res_of(&inc.rt.block_on(cl.login_with_personal_access_token(&raw)))
            }
            "logout" => {
                let inc = run.inc.as_ref().unwrap();
                let cl = run.conns[c].as_ref().ok_or("no conn")?;
                res_of(&inc.rt.block_on(cl.logout_user()))
            }
            "create_user" => {
                let active = step["active"].as_bool().unwrap_or(true);
                let inc = run.inc.as_ref().unwrap();
                let cl: &dyn iggy::client::UserClient = match (c, run.http_admin.as_ref()) {
                    (1, Some(h)) => h,
                    _ => run.conns[c].as_ref().ok_or("no conn")?,
                };
                res_of(&inc.rt.block_on(cl.create_user(
                    self.name(run, &mname),
                    self.pwd(run, step["pwd"].as_str().unwrap_or("")),
                    if active { UserStatus::Active } else { UserStatus::Inactive },
                    None,
                )))
            }
            "change_password" => {
                let inc = run.inc.as_ref().unwrap();
                let cl: &dyn iggy::client::UserClient = match (c, run.http_admin.as_ref()) {
                    (1, Some(h)) => h,
                    _ => run.conns[c].as_ref().ok_or("no conn")?,
                };
                let id = Identifier::named(self.name(run, &mname)).map_err(|e| e.to_string())?;
                res_of(&inc.rt.block_on(cl.change_password(
                    &id,
                    self.pwd(run, step["cur"].as_str().unwrap_or("")),
                    self.pwd(run, step["new"].as_str().unwrap_or("")),
                )))
            }
            "set_status" => {
                let active = step["active"].as_bool().unwrap_or(true);
                let inc = run.inc.as_ref().unwrap();
                let cl: &dyn iggy::client::UserClient = match (c, run.http_admin.as_ref()) {
                    (1, Some(h)) => h,
                    _ => run.conns[c].as_ref().ok_or("no conn")?,
                };
                let id = Identifier::named(self.name(run, &mname)).map_err(|e| e.to_string())?;
                res_of(&inc.rt.block_on(cl.update_user(&id, None, Some(if active { UserStatus::Active } else { UserStatus::Inactive }))))
            }
            "delete_user" => {
                let inc = run.inc.as_ref().unwrap();
                let cl: &dyn iggy::client::UserClient = match (c, run.http_admin.as_ref()) {
                    (1, Some(h)) => h,
                    _ => run.conns[c].as_ref().ok_or("no conn")?,
                };
                let id = Identifier::named(self.name(run, &mname)).map_err(|e| e.to_string())?;
                res_of(&inc.rt.block_on(cl.delete_user(&id)))
            }
            "create_pat" => {
                let tok = step["tok"].as_u64().unwrap_or(0);
                let ttl = step["ttl"].as_u64().unwrap_or(0);
                let pname = format!("pat-{}-{}", tok, run.pat_names.len());
                let expiry = if ttl == 0 {
                    IggyExpiry::NeverExpire
                } else {
                    IggyExpiry::ExpireDuration(IggyDuration::new(std::time::Duration::from_micros(ttl * srv::TICK_MICROS)))
                };
                let inc = run.inc.as_ref().unwrap();
                let cl = run.conns[c].as_ref().ok_or("no conn")?;
                let r = inc.rt.block_on(cl.create_personal_access_token(&pname, expiry));
                let res = res_of(&r);
                if let Ok(raw) = r {
                    run.raw_tokens.insert(tok, raw.token);
                    run.pat_names.insert(tok, pname);
                }
                res
            }
            "delete_pat" => {
                let tok = step["tok"].as_u64().unwrap_or(0);
                let pname = run.pat_names.get(&tok).cloned().unwrap_or_else(|| "no-such-pat".to_string());
                let inc = run.inc.as_ref().unwrap();
                let cl = run.conns[c].as_ref().ok_or("no conn")?;
                res_of(&inc.rt.block_on(cl.delete_personal_access_token(&pname)))
            }
            "tick" => {
                run.tick += step["by"].as_u64().unwrap_or(1);
                srv::set_tick(run.tick);
                "ok".to_string()
            }
            "clean" => {
                let inc = run.inc.as_ref().unwrap();
                let system = inc.system.clone();
                let h = inc.rt.spawn(async move {
                    let mut ex = CleanPersonalAccessTokensExecutor;
                    ex.execute(&system, CleanPersonalAccessTokensCommand).await;
                });
                match inc.rt.block_on(h) {
                    Ok(_) => "ok".to_string(),
                    Err(_) => "panic".to_string(),
                }
            }
            "restart" => {
                let mut res = "ok".to_string();
                for m in run.conns.iter_mut() {
                    *m = None;
                }
                let inc = run.inc.take().unwrap();
                if let Err(e) = srv::stop(inc, true) {
                    res = if e.starts_with("panic") { "panic".into() } else { format!("err:{e}") };
                }
                if let Err(e) = self.start_inc(run) {
                    let o = ev.as_object_mut().unwrap();
                    o.insert("res".into(), json!(res));
                    o.insert("fatal".into(), json!(format!("start failed: {e}")));
                    return Ok(ev);
                }
                res
            }
            other => return Err(format!("unknown op {other}")),
        };
        if res == "closed" {
            // the connection died (server task panicked): replace it, unauthenticated
            let inc = run.inc.as_ref().unwrap();
            if let Ok(cl) = inc.rt.block_on(srv::tcp_connect(inc.tcp)) {
                run.conns[c] = Some(cl);
            }
        }
        ev.as_object_mut().unwrap().insert("res".into(), json!(res));
        Ok(ev)
    }

    fn observe(&self, run: &mut Run) -> Result<Value, String> {
        let inc = run.inc.as_ref().unwrap();
        let rt = &inc.rt;
        let scratch = rt.block_on(srv::tcp_connect(inc.tcp))?;
        let mut logins = vec![];
        let mut http_logins = vec![];
        let http_url = format!("http://{}", inc.http.unwrap());
        for (mn, name) in &run.scn.names {
            for (mp, pwd) in &run.scn.pwds {
                let r = rt.block_on(scratch.login_user(name, pwd));
                if r.is_ok() {
                    let _ = rt.block_on(scratch.logout_user());
                }
                logins.push(json!([mn, mp, r.is_ok()]));
                let h = HttpClient::new(&http_url).map_err(|e| e.to_string())?;
                let r = rt.block_on(h.login_user(name, pwd));
                http_logins.push(json!([mn, mp, r.is_ok()]));
            }
        }
        let mut pats = vec![];
        let mut http_pats = vec![];
        for (tok, raw) in &run.raw_tokens {
            let r = rt.block_on(scratch.login_with_personal_access_token(raw));
            if r.is_ok() {
                let _ = rt.block_on(scratch.logout_user());
            }
            pats.push(json!([tok, r.is_ok()]));
            let h = HttpClient::new(&http_url).map_err(|e| e.to_string())?;
            let r = rt.block_on(h.login_with_personal_access_token(raw));
            http_pats.push(json!([tok, r.is_ok()]));
        }
        let _ = rt.block_on(Client::disconnect(&scratch));
        // probe every connection with a request that needs authentication
        let mut probe = vec![];
        for c in 2..run.conns.len() {
            if let Some(cl) = run.conns[c].as_ref() {
                let r = rt.block_on(cl.get_streams());
                let class = res_of(&r);
                probe.push(json!([c, class != "unauthenticated" && class != "closed"]));
            }
        }
        // no raw secret in any file the server wrote (root's default password equals its user name and is excluded)
        let mut needles: Vec<Vec<u8>> = run.scn.pwds.values().map(|p| p.as_bytes().to_vec()).collect();
        for raw in run.raw_tokens.values() {
            needles.push(raw.as_bytes().to_vec());
        }
        let mut hits = 0u64;
        let mut wh = String::new();
        for (path, _) in crate::util::dir_size_files(&run.dir) {
            if let Ok(data) = std::fs::read(&path) {
                for n in &needles {
                    if !n.is_empty() && data.len() >= n.len() && data.windows(n.len()).any(|w| w == &n[..]) {
                        hits += 1;
                        wh = path.replace(&run.dir, "");
                    }
                }
            }
        }
        Ok(json!({"logins": logins, "http_logins": http_logins, "pats": pats, "http_pats": http_pats, "probe": probe,
                  "secret_hits": hits, "secret_where": wh}))
    }
}
