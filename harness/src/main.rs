//! iggy-verif: executes scenario files against the real iggy code and records ndjson traces
//! for validation against the TLA+ specifications in /verif/specs.
mod auth_lens;
mod cat_lens;
mod crash_lens;
mod grp_lens;
mod jrn_lens;
mod log_lens;
mod mt_lens;
mod perm_lens;
mod rec_client;
mod sdk_lens;
mod srv;
mod topic_lens;
mod util;
mod wire_lens;

use std::io::BufRead;

fn arg(args: &[String], name: &str) -> Option<String> {
    args.iter().position(|a| a == name).and_then(|i| args.get(i + 1).cloned())
}

fn each_scenario<S: serde::de::DeserializeOwned>(
    input: &str,
    tool_errors: &mut Vec<String>,
    mut f: impl FnMut(usize, &S) -> Result<(), String>,
) -> usize {
    let file = std::fs::File::open(input).expect("open scenarios");
    let mut n = 0usize;
    for line in std::io::BufReader::new(file).lines() {
        let line = line.expect("read");
        if line.trim().is_empty() {
            continue;
        }
        util::CURRENT_SCENARIO.store(n, std::sync::atomic::Ordering::SeqCst);
        match serde_json::from_str::<S>(&line) {
            Ok(scn) => {
                if let Err(e) = f(n, &scn) {
                    tool_errors.push(format!("scenario #{n}: {e}"));
                }
            }
            Err(e) => tool_errors.push(format!("bad scenario line {n}: {e}")),
        }
        n += 1;
    }
    n
}

fn main() {
    // sysinfo (used by get_stats at every server start) scans /proc on rayon's global pool, whose idle workers
    // spin; many harness processes run in parallel, so keep that pool to one thread.
    std::env::set_var("RAYON_NUM_THREADS", "1");
    let args: Vec<String> = std::env::args().collect();
    if args.len() < 2 {
        eprintln!("usage: iggy-verif <lens> --in scenarios.jsonl --out trace.ndjson --work dir");
        std::process::exit(2);
    }
    // a panic inside a server task must not abort the harness: it is data
    std::panic::set_hook(Box::new(|info| {
        let msg = info.to_string();
        eprintln!("[panic] {}", msg.lines().next().unwrap_or(""));
    }));
    let lens = args[1].clone();
    let input = arg(&args, "--in").expect("--in");
    let output = arg(&args, "--out").expect("--out");
    let work = arg(&args, "--work").expect("--work");
    std::fs::create_dir_all(&work).expect("work dir");
    let mut out = util::TraceWriter::create(&output);
    if lens == "topic" || lens == "cat" || lens == "log" {
        out.clamp = 200_000_000; // their specifications sum counts and sizes over partitions, topics and streams
    }
    let mut tool_errors: Vec<String> = vec![];
    let t0 = std::time::Instant::now();
    let n = match lens.as_str() {
        "log" => {
            let l = log_lens::LogLens::new(&work);
            each_scenario::<log_lens::Scenario>(&input, &mut tool_errors, |n, s| l.run_scenario(n, s, &mut out))
        }
        "topic" => {
            let l = topic_lens::TopicLens::new(&work);
            each_scenario::<topic_lens::Scenario>(&input, &mut tool_errors, |n, s| l.run_scenario(n, s, &mut out))
        }
        "cat" => {
            let l = cat_lens::CatLens::new(&work);
            each_scenario::<cat_lens::Scenario>(&input, &mut tool_errors, |n, s| l.run_scenario(n, s, &mut out))
        }
        "auth" => {
            let l = auth_lens::AuthLens::new(&work);
            each_scenario::<auth_lens::Scenario>(&input, &mut tool_errors, |n, s| l.run_scenario(n, s, &mut out))
        }
        "perm" => {
            let l = perm_lens::PermLens::new(&work);
            each_scenario::<perm_lens::Scenario>(&input, &mut tool_errors, |n, s| l.run_scenario(n, s, &mut out))
        }
        "jrn" => {
            let l = jrn_lens::JrnLens::new(&work);
            each_scenario::<jrn_lens::Scenario>(&input, &mut tool_errors, |n, s| l.run_scenario(n, s, &mut out))
        }
        "wire" => {
            let l = wire_lens::WireLens::new(&work);
            each_scenario::<wire_lens::Scenario>(&input, &mut tool_errors, |n, s| l.run_scenario(n, s, &mut out))
        }
        "mt" => {
            let l = mt_lens::MtLens::new(&work);
            each_scenario::<mt_lens::Scenario>(&input, &mut tool_errors, |n, s| l.run_scenario(n, s, &mut out))
        }
        "crash" => {
            let l = crash_lens::CrashLens::new(&work);
            each_scenario::<crash_lens::Scenario>(&input, &mut tool_errors, |n, s| l.run_scenario(n, s, &mut out))
        }
        "sdk" => {
            let l = sdk_lens::SdkLens::new(&work);
            each_scenario::<sdk_lens::Scenario>(&input, &mut tool_errors, |n, s| l.run_scenario(n, s, &mut out))
        }
        "cachehang" => {
            // demonstration helper (not used by any check): `--work dir --in populate|load`. A restart needs a NEW process here,
            // because the cache memory tracker is a process-global. populate: 2 partitions, 10 messages in one batch to the
            // first, 1 message to the second, graceful stop. load: start on the same directory under a 15 s watchdog.
            use iggy::client::{MessageClient, StreamClient, TopicClient};
            let cfg = srv::ScnConfig { cache: "tiny".into(), save_threshold: 1, ..Default::default() };
            let config = srv::build_config(&work, &cfg, srv::ENC_KEY_A);
            let mut config = config;
            if let Ok(v) = std::env::var("CACHE_BYTES") {
                if let Some(c) = std::sync::Arc::get_mut(&mut config) {
                    c.cache.size = format!("{v} B").parse().expect("cache size");
                }
            }
            if input == "populate" {
                let _ = std::fs::remove_dir_all(&work);
                std::fs::create_dir_all(&work).unwrap();
                let inc = srv::start(config, &cfg, false).expect("start");
                let c = inc.rt.block_on(srv::tcp_root(inc.tcp)).expect("client");
                inc.rt.block_on(async {
                    use iggy::messages::send_messages::{Message, Partitioning};
                    let s1 = iggy::identifier::Identifier::numeric(1).unwrap();
                    c.create_stream("s", Some(1)).await.unwrap();
                    let parts: u32 = std::env::var("P").ok().and_then(|v| v.parse().ok()).unwrap_or(2);
                    let k: u32 = std::env::var("K").ok().and_then(|v| v.parse().ok()).unwrap_or(3);
                    c.create_topic(&s1, "t", parts, iggy::compression::compression_algorithm::CompressionAlgorithm::None, None, Some(1),
                        iggy::utils::expiry::IggyExpiry::NeverExpire, iggy::utils::topic_size::MaxTopicSize::Unlimited).await.unwrap();
                    for p in 1..=parts {
                        for i in 0..k {
                            let mut one = vec![Message::new(None, bytes::Bytes::from(format!("message-{p}-{i:06}")), None)];
                            c.send_messages(&s1, &s1, &Partitioning::partition_id(p), &mut one).await.unwrap();
                        }
                    }
                });
                drop(c);
                let _ = srv::stop(inc, true);
                println!("populated");
            } else {
                std::thread::spawn(|| {
                    std::thread::sleep(std::time::Duration::from_secs(15));
                    println!("HANG: the server did not finish starting within 15 s");
                    std::process::exit(3);
                });
                let inc = srv::start(config, &cfg, false).expect("start");
                println!("started");
                let _ = srv::stop(inc, false);
            }
            return;
        }
        "grp" => {
            let l = grp_lens::GrpLens::new(&work);
            each_scenario::<grp_lens::Scenario>(&input, &mut tool_errors, |n, s| l.run_scenario(n, s, &mut out))
        }
        other => {
            eprintln!("unknown lens {other}");
            std::process::exit(2);
        }
    };
    out.flush();
    println!(
        "{}",
        serde_json::json!({"lens": lens, "scenarios": n, "lines": out.lines, "tool_errors": tool_errors,
                           "wall_s": t0.elapsed().as_secs_f64()})
    );
    if !tool_errors.is_empty() {
        std::process::exit(2);
    }
}
