//! Permission lens (C09): (1) rule-level decision table over a structured set of permission records, evaluated on the
//! real `Permissioner` inside catch_unwind; (2) unauthenticated sweep of every SDK call over TCP and HTTP;
//! (3) op binding: a real user holding a record performs the operations over TCP on an ALREADY OPEN connection.
use crate::srv::{self, ScnConfig};
use crate::util::{res_of, Rng, TraceWriter};
use ahash::AHashMap;
use bytes::Bytes;
use iggy::client::*;
use iggy::compression::compression_algorithm::CompressionAlgorithm;
use iggy::consumer::Consumer;
use iggy::http::client::HttpClient;
use iggy::identifier::Identifier;
use iggy::messages::poll_messages::PollingStrategy;
use iggy::messages::send_messages::{Message, Partitioning};
use iggy::models::permissions::{GlobalPermissions, Permissions, StreamPermissions, TopicPermissions};
use iggy::models::user_status::UserStatus;
use iggy::utils::expiry::IggyExpiry;
use iggy::utils::topic_size::MaxTopicSize;
use serde::Deserialize;
use serde_json::{json, Value};
use server::streaming::users::permissioner::Permissioner;

#[derive(Debug, Clone, Deserialize)]
pub struct Scenario {
    pub id: String,
    #[serde(default)]
    pub cfg: ScnConfig,
    #[serde(default)]
    pub seed: u64,
    pub kind: String, // "table" | "unauth" | "ops"
    /// table: "quick" | "thorough"; ops: list of records to try
    #[serde(default)]
    pub level: String,
    #[serde(default)]
    pub records: Vec<Value>,
    /// table sharding: only records with index % shards == shard
    #[serde(default)]
    pub shard: u64,
    #[serde(default = "one")]
    pub shards: u64,
}
fn one() -> u64 {
    1
}

pub struct PermLens {
    pub work: String,
}

const GF: [&str; 10] = ["manage_servers", "read_servers", "manage_users", "read_users", "manage_streams", "read_streams",
    "manage_topics", "read_topics", "poll_messages", "send_messages"];
const SF: [&str; 6] = ["manage_stream", "read_stream", "manage_topics", "read_topics", "poll_messages", "send_messages"];
const TF: [&str; 4] = ["manage_topic", "read_topic", "poll_messages", "send_messages"];

#[derive(Clone, Debug)]
struct Rec {
    g: u32,     // bit set over GF
    sk: u8,     // 0 none, 1 record for the target stream (1), 2 record for another stream (2)
    s: u32,     // bit set over SF
    tk: u8,     // 0 no topic table, 1 empty table, 2 entry for the target topic (2), 3 entry for another topic (1)
                // (target stream 1 / target topic 2, other stream 2 / other topic 1: a rule that confuses the two ids consults the OTHER record)
    t: u32,     // bit set over TF
    os: u32,    // sk == 3 ("both"): flags of the ADDITIONAL record for the other stream (2) ...
    ot: u32,    // ... and of its entries for topics 1 and 2 (no topic table when 0)
}

impl Rec {
    fn to_permissions(&self) -> Permissions {
        let b = |bits: u32, i: usize| bits & (1 << i) != 0;
        let global = GlobalPermissions {
            manage_servers: b(self.g, 0), read_servers: b(self.g, 1), manage_users: b(self.g, 2), read_users: b(self.g, 3),
            manage_streams: b(self.g, 4), read_streams: b(self.g, 5), manage_topics: b(self.g, 6), read_topics: b(self.g, 7),
            poll_messages: b(self.g, 8), send_messages: b(self.g, 9),
        };
        let streams = if self.sk == 0 {
            None
        } else {
            let topics = match self.tk {
                0 => None,
                1 => Some(AHashMap::new()),
                k => {
                    let mut m = AHashMap::new();
                    m.insert(if k == 2 { 2u32 } else { 1u32 }, TopicPermissions {
                        manage_topic: b(self.t, 0), read_topic: b(self.t, 1), poll_messages: b(self.t, 2), send_messages: b(self.t, 3),
                    });
                    Some(m)
                }
            };
            let sp = StreamPermissions {
                manage_stream: b(self.s, 0), read_stream: b(self.s, 1), manage_topics: b(self.s, 2), read_topics: b(self.s, 3),
                poll_messages: b(self.s, 4), send_messages: b(self.s, 5), topics,
            };
            let mut m = AHashMap::new();
            m.insert(if self.sk == 2 { 2u32 } else { 1u32 }, sp);
            if self.sk == 3 {
                let topics = if self.ot == 0 {
                    None
                } else {
                    let mut tm = AHashMap::new();
                    for tid in 1..=2u32 {
                        tm.insert(tid, TopicPermissions {
                            manage_topic: b(self.ot, 0), read_topic: b(self.ot, 1), poll_messages: b(self.ot, 2), send_messages: b(self.ot, 3),
                        });
                    }
                    Some(tm)
                };
                m.insert(2u32, StreamPermissions {
                    manage_stream: b(self.os, 0), read_stream: b(self.os, 1), manage_topics: b(self.os, 2), read_topics: b(self.os, 3),
                    poll_messages: b(self.os, 4), send_messages: b(self.os, 5), topics,
                });
            }
            Some(m)
        };
        Permissions { global, streams }
    }
    fn to_json(&self) -> Value {
        let names = |bits: u32, f: &[&str]| -> Vec<String> { f.iter().enumerate().filter(|(i, _)| bits & (1 << i) != 0).map(|(_, n)| n.to_string()).collect() };
        let sk = ["none", "target", "other", "both"][self.sk as usize];
        let tk = ["none", "empty", "target", "other"][self.tk as usize];
        json!({"g": names(self.g, &GF), "sk": sk, "s": names(self.s, &SF), "tk": tk, "t": names(self.t, &TF),
               "os": names(self.os, &SF), "ot": names(self.ot, &TF)})
    }
    fn from_json(v: &Value) -> Rec {
        let bits = |a: &Value, f: &[&str]| -> u32 {
            a.as_array().map(|l| l.iter().fold(0u32, |acc, x| acc | f.iter().position(|n| Some(*n) == x.as_str()).map(|i| 1 << i).unwrap_or(0))).unwrap_or(0)
        };
        let idx = |s: &Value, opts: &[&str]| -> u8 { opts.iter().position(|o| Some(*o) == s.as_str()).unwrap_or(0) as u8 };
        Rec { g: bits(&v["g"], &GF), sk: idx(&v["sk"], &["none", "target", "other", "both"]), s: bits(&v["s"], &SF),
              tk: idx(&v["tk"], &["none", "empty", "target", "other"]), t: bits(&v["t"], &TF),
              os: bits(&v["os"], &SF), ot: bits(&v["ot"], &TF) }
    }
}

type Rule = (&'static str, Box<dyn Fn(&Permissioner) -> Result<(), iggy::error::IggyError>>);

fn rules() -> Vec<Rule> {
    const U: u32 = 7;
    macro_rules! g { ($n:ident) => { (stringify!($n), Box::new(|p: &Permissioner| p.$n(U)) as Box<dyn Fn(&Permissioner) -> _>) }; }
    macro_rules! s { ($n:ident) => { (stringify!($n), Box::new(|p: &Permissioner| p.$n(U, 1)) as Box<dyn Fn(&Permissioner) -> _>) }; }
    macro_rules! t { ($n:ident) => { (stringify!($n), Box::new(|p: &Permissioner| p.$n(U, 1, 2)) as Box<dyn Fn(&Permissioner) -> _>) }; }
    vec![
        g!(get_stats), g!(get_clients), g!(get_client), g!(get_user), g!(get_users), g!(create_user), g!(delete_user), g!(update_user),
        g!(update_permissions), g!(change_password), g!(get_streams), g!(create_stream),
        s!(get_stream), s!(update_stream), s!(delete_stream), s!(purge_stream), s!(get_topics), s!(create_topic),
        t!(get_topic), t!(update_topic), t!(delete_topic), t!(purge_topic), t!(create_partitions), t!(delete_partitions),
        t!(get_consumer_group), t!(get_consumer_groups), t!(create_consumer_group), t!(delete_consumer_group), t!(join_consumer_group),
        t!(leave_consumer_group), t!(get_consumer_offset), t!(store_consumer_offset), t!(delete_consumer_offset), t!(poll_messages),
        t!(append_messages),
    ]
}

fn decide(rec: &Rec, rules: &[Rule]) -> Vec<u8> {
    let mut p = Permissioner::default();
    p.init_permissions_for_user(7, Some(rec.to_permissions()));
    rules
        .iter()
        .map(|(_, f)| match std::panic::catch_unwind(std::panic::AssertUnwindSafe(|| f(&p))) {
            Ok(Ok(())) => 1u8,
            Ok(Err(_)) => 0u8,
            Err(_) => 2u8,
        })
        .collect()
}

fn enumerate_records(level: &str) -> Vec<Rec> {
    // global: empty, each single flag, each pair of the six stream/topic-relevant flags, all, all-but-one
    let mut gs: Vec<u32> = vec![0];
    for i in 0..10 {
        gs.push(1 << i);
    }
    for i in 4..10 {
        for j in (i + 1)..10 {
            gs.push((1 << i) | (1 << j));
        }
    }
    gs.push(0x3ff);
    for i in 0..10 {
        gs.push(0x3ff & !(1 << i));
    }
    let sflags: Vec<u32> = if level == "thorough" {
        (0..64).collect()
    } else {
        let mut v = vec![0u32, 63];
        for i in 0..6 {
            v.push(1 << i);
            for j in (i + 1)..6 {
                v.push((1 << i) | (1 << j));
            }
        }
        v
    };
    let tflags: Vec<u32> = if level == "thorough" { (0..16).collect() } else { vec![0, 1, 2, 4, 8, 15, 3, 12] };
    let mut out = vec![];
    for g in &gs {
        out.push(Rec { g: *g, sk: 0, s: 0, tk: 0, t: 0, os: 0, ot: 0 });
        for sk in 1..=2u8 {
            for s in &sflags {
                for tk in 0..=3u8 {
                    if tk < 2 {
                        out.push(Rec { g: *g, sk, s: *s, tk, t: 0, os: 0, ot: 0 });
                    } else {
                        for t in &tflags {
                            out.push(Rec { g: *g, sk, s: *s, tk, t: *t, os: 0, ot: 0 });
                        }
                    }
                }
            }
        }
        // the target record next to a record for the OTHER stream holding everything (sk "both"): nothing of the latter may count
        for s in &sflags {
            for (tk, t) in [(0u8, 0u32), (2, 0), (2, 15), (3, 15)] {
                for (os, ot) in [(63u32, 15u32), (63, 0), (4, 0), (0, 15)] {
                    out.push(Rec { g: *g, sk: 3, s: *s, tk, t, os, ot });
                }
            }
        }
    }
    out
}

impl PermLens {
    pub fn new(work: &str) -> Self {
        PermLens { work: work.to_string() }
    }

    pub fn run_scenario(&self, idx: usize, scn: &Scenario, out: &mut TraceWriter) -> Result<(), String> {
        match scn.kind.as_str() {
            "table" => self.table(idx, scn, out),
            "unauth" => self.unauth(idx, scn, out),
            "ops" => self.ops(idx, scn, out),
            k => Err(format!("unknown kind {k}")),
        }
    }

    fn table(&self, idx: usize, scn: &Scenario, out: &mut TraceWriter) -> Result<(), String> {
        let rules = rules();
        let names: Vec<&str> = rules.iter().map(|(n, _)| *n).collect();
        out.emit(&json!({"ev":"reset","sc":idx,"id":scn.id,"kind":"table","rules":names}));
        let recs = enumerate_records(&scn.level);
        let mut rng = Rng(scn.seed ^ 0x9e3);
        let mut i = 0u64;
        for (k, rec) in recs.iter().enumerate() {
            if (k as u64) % scn.shards != scn.shard {
                continue;
            }
            i += 1;
            let d = decide(rec, &rules);
            // "granting more never revokes": a few one-step-larger records (one more flag, or an absent table made present)
            let mut plus = vec![];
            for _ in 0..3 {
                let mut r2 = rec.clone();
                match rng.below(4) {
                    0 => r2.g |= 1 << rng.below(10),
                    1 if r2.sk == 1 || r2.sk == 3 => r2.s |= 1 << rng.below(6),
                    2 if (r2.sk == 1 || r2.sk == 3) && r2.tk == 2 => r2.t |= 1 << rng.below(4),
                    _ => {
                        if r2.sk == 0 {
                            r2.sk = 1;
                        } else if r2.sk == 1 && r2.tk < 2 {
                            r2.tk += 1;
                        } else {
                            r2.g |= 1 << rng.below(10);
                        }
                    }
                }
                plus.push(json!({"rec": r2.to_json(), "d": decide(&r2, &rules)}));
            }
            out.emit(&json!({"ev":"rule","sc":idx,"i":i,"rec":rec.to_json(),"d":d,"plus":plus}));
        }
        // the root record
        let root = Rec { g: 0x3ff, sk: 0, s: 0, tk: 0, t: 0, os: 0, ot: 0 };
        out.emit(&json!({"ev":"rule","sc":idx,"i":i + 1,"rec":root.to_json(),"d":decide(&root, &rules),"plus":[],"root":true}));
        Ok(())
    }

    fn unauth(&self, idx: usize, scn: &Scenario, out: &mut TraceWriter) -> Result<(), String> {
        let dir = format!("{}/d{}", self.work, idx);
        let _ = std::fs::remove_dir_all(&dir);
        std::fs::create_dir_all(&dir).map_err(|e| e.to_string())?;
        let config = srv::build_config(&dir, &scn.cfg, srv::ENC_KEY_A);
        let inc = srv::start(config, &scn.cfg, true)?;
        let rt = &inc.rt;
        let admin = rt.block_on(srv::tcp_root(inc.tcp))?;
        rt.block_on(async {
            admin.create_stream("vstream", Some(1)).await.map_err(|e| e.to_string())?;
            admin.create_topic(&Identifier::numeric(1).unwrap(), "vtopic", 1, CompressionAlgorithm::None, None, Some(2),
                IggyExpiry::NeverExpire, MaxTopicSize::Unlimited).await.map_err(|e| e.to_string())?;
            admin.create_consumer_group(&Identifier::numeric(1).unwrap(), &Identifier::numeric(2).unwrap(), "vgroup", Some(1)).await.map_err(|e| e.to_string())?;
            let mut msgs = vec![Message::new(None, Bytes::from("hello"), None)];
            admin.send_messages(&Identifier::numeric(1).unwrap(), &Identifier::numeric(2).unwrap(), &Partitioning::partition_id(1), &mut msgs).await.map_err(|e| e.to_string())?;
            admin.create_user("victim", "victim-pwd", UserStatus::Active, None).await.map_err(|e| e.to_string())?;
            Ok::<(), String>(())
        })?;
        out.emit(&json!({"ev":"reset","sc":idx,"id":scn.id,"kind":"unauth"}));
        let fingerprint = |rt: &tokio::runtime::Runtime| -> String {
            rt.block_on(async {
                let s = admin.get_streams().await.map(|v| v.iter().map(|s| format!("{}:{}:{}:{}", s.id, s.name, s.topics_count, s.messages_count)).collect::<Vec<_>>());
                let t = admin.get_topic(&Identifier::numeric(1).unwrap(), &Identifier::numeric(2).unwrap()).await.map(|t| t.map(|t| format!("{}:{}:{}", t.name, t.partitions_count, t.messages_count)));
                let u = admin.get_users().await.map(|v| v.iter().map(|u| format!("{}:{}", u.id, u.username)).collect::<Vec<_>>());
                let g = admin.get_consumer_groups(&Identifier::numeric(1).unwrap(), &Identifier::numeric(2).unwrap()).await.map(|v| v.len());
                format!("{s:?}|{t:?}|{u:?}|{g:?}")
            })
        };
        let mut i = 0u64;
        // the three kinds of unauthenticated connection: never logged in, logged out, and whose user was deleted (stale)
        for (mode, transport) in [("fresh", "tcp"), ("logged_out", "tcp"), ("fresh", "http")] {
            // The SDK refuses most calls locally while it believes it is not authenticated, and drops the connection when the
            // server answers "unauthenticated": every operation gets its own connection whose CLIENT-SIDE state is forced to
            // "authenticated", so that the request really reaches the server.
            let tcp = inc.tcp;
            let http = inc.http.unwrap();
            let provider = || -> std::sync::Arc<dyn Client> {
                if transport == "tcp" {
                    let c = rt.block_on(srv::tcp_connect(tcp)).expect("connect");
                    if mode == "logged_out" {
                        rt.block_on(async {
                            c.login_user("victim", "victim-pwd").await.expect("login");
                            c.logout_user().await.expect("logout");
                        });
                    }
                    rt.block_on(iggy::binary::BinaryTransport::set_state(&c, iggy::binary::ClientState::Authenticated));
                    std::sync::Arc::new(c)
                } else {
                    std::sync::Arc::new(HttpClient::new(&format!("http://{}", http)).expect("http client"))
                }
            };
            let before = fingerprint(rt);
            for (op, res) in all_ops(rt, &provider, transport) {
                i += 1;
                let after = fingerprint(rt);
                out.emit(&json!({"ev":"unauth","sc":idx,"i":i,"transport":transport,"mode":mode,"op":op,"res":res,"unchanged":before == after}));
            }
        }
        drop(admin);
        let _ = srv::stop(inc, false);
        let _ = std::fs::remove_dir_all(&dir);
        Ok(())
    }

    fn ops(&self, idx: usize, scn: &Scenario, out: &mut TraceWriter) -> Result<(), String> {
        let dir = format!("{}/d{}", self.work, idx);
        let _ = std::fs::remove_dir_all(&dir);
        std::fs::create_dir_all(&dir).map_err(|e| e.to_string())?;
        let config = srv::build_config(&dir, &scn.cfg, srv::ENC_KEY_A);
        let inc = srv::start(config, &scn.cfg, false)?;
        let rt = &inc.rt;
        let admin = rt.block_on(srv::tcp_root(inc.tcp))?;
        out.emit(&json!({"ev":"reset","sc":idx,"id":scn.id,"kind":"ops"}));
        let s1 = Identifier::numeric(1).unwrap();
        let t1 = Identifier::numeric(2).unwrap();
        let setup = |rt: &tokio::runtime::Runtime| -> Result<(), String> {
            rt.block_on(async {
                // (re)create the fixtures the user's operations may have destroyed: streams 1 and 2 with topics 1 and 2, a group, messages
                for sid in 1..=2u32 {
                    let s = Identifier::numeric(sid).unwrap();
                    if admin.get_stream(&s).await.map_err(|e| e.to_string())?.is_none() {
                        admin.create_stream(&format!("vstream{sid}"), Some(sid)).await.map_err(|e| e.to_string())?;
                    }
                    for tid in 1..=2u32 {
                        let t = Identifier::numeric(tid).unwrap();
                        if admin.get_topic(&s, &t).await.map_err(|e| e.to_string())?.is_none() {
                            admin.create_topic(&s, &format!("vtopic{tid}"), 1, CompressionAlgorithm::None, None, Some(tid),
                                IggyExpiry::NeverExpire, MaxTopicSize::Unlimited).await.map_err(|e| e.to_string())?;
                        }
                        if admin.get_consumer_group(&s, &t, &Identifier::numeric(1).unwrap()).await.map_err(|e| e.to_string())?.is_none() {
                            admin.create_consumer_group(&s, &t, "vgroup", Some(1)).await.map_err(|e| e.to_string())?;
                        }
                    }
                }
                let mut msgs = vec![Message::new(None, Bytes::from("hello"), None)];
                admin.send_messages(&s1, &t1, &Partitioning::partition_id(1), &mut msgs).await.map_err(|e| e.to_string())?;
                if admin.get_user(&Identifier::named("other-user").unwrap()).await.map_err(|e| e.to_string())?.is_none() {
                    admin.create_user("other-user", "other-pwd", UserStatus::Active, None).await.map_err(|e| e.to_string())?;
                }
                Ok::<(), String>(())
            })
        };
        setup(rt)?;
        rt.block_on(admin.create_user("subject", "subject-pwd", UserStatus::Active, None)).map_err(|e| e.to_string())?;
        // ONE connection, opened and logged in once: every permission update below must apply to its next request
        let user: std::sync::Arc<dyn Client> = {
            let u = rt.block_on(srv::tcp_connect(inc.tcp))?;
            rt.block_on(u.login_user("subject", "subject-pwd")).map_err(|e| e.to_string())?;
            std::sync::Arc::new(u)
        };
        let same = || user.clone();
        let mut i = 0u64;
        for rv in &scn.records {
            let rec = Rec::from_json(rv);
            rt.block_on(admin.update_permissions(&Identifier::named("subject").unwrap(), Some(rec.to_permissions())))
                .map_err(|e| format!("update_permissions: {e}"))?;
            for (op, res) in all_ops(rt, &same, "tcp") {
                i += 1;
                out.emit(&json!({"ev":"op","sc":idx,"i":i,"rec":rec.to_json(),"op":op,"res":res}));
                if res == "closed" {
                    return Err("user connection closed".into());
                }
            }
            setup(rt)?;
        }
        // permissions removed altogether, then the user deleted: the open connection must lose everything
        rt.block_on(admin.update_permissions(&Identifier::named("subject").unwrap(), None)).map_err(|e| e.to_string())?;
        for (op, res) in all_ops(rt, &same, "tcp") {
            i += 1;
            out.emit(&json!({"ev":"op","sc":idx,"i":i,"rec":Rec{g:0,sk:0,s:0,tk:0,t:0,os:0,ot:0}.to_json(),"op":op,"res":res,"phase":"stripped"}));
        }
        setup(rt)?;
        rt.block_on(admin.update_permissions(&Identifier::named("subject").unwrap(), Some(Permissions::root()))).map_err(|e| e.to_string())?;
        rt.block_on(admin.delete_user(&Identifier::named("subject").unwrap())).map_err(|e| e.to_string())?;
        for (op, res) in all_ops(rt, &same, "tcp") {
            i += 1;
            out.emit(&json!({"ev":"op","sc":idx,"i":i,"rec":Rec{g:0,sk:0,s:0,tk:0,t:0,os:0,ot:0}.to_json(),"op":op,"res":res,"phase":"deleted"}));
        }
        // the root user can be neither deleted nor stripped of its permissions
        let r1 = res_of(&rt.block_on(admin.delete_user(&Identifier::numeric(1).unwrap())));
        let r2 = res_of(&rt.block_on(admin.update_permissions(&Identifier::numeric(1).unwrap(), None)));
        let r3 = res_of(&rt.block_on(admin.get_stats()));
        out.emit(&json!({"ev":"root","sc":idx,"i":i + 1,"delete":r1,"strip":r2,"after":r3}));
        drop(admin);
        let _ = srv::stop(inc, false);
        let _ = std::fs::remove_dir_all(&dir);
        Ok(())
    }
}

/// Every operation of the API once, against stream 1 / topic 2 (names of the rules they must consult).
fn all_ops(rt: &tokio::runtime::Runtime, provider: &dyn Fn() -> std::sync::Arc<dyn Client>, transport: &str) -> Vec<(String, String)> {
    let s1 = Identifier::numeric(1).unwrap();
    let t1 = Identifier::numeric(2).unwrap();
    let g1 = Identifier::numeric(1).unwrap();
    let cons = Consumer::new(Identifier::numeric(5).unwrap());
    let mut out: Vec<(String, String)> = vec![];
    macro_rules! op {
        ($name:expr, $c:ident, $fut:expr) => {{
            let $c = provider();
            let r = rt.block_on($fut);
            out.push(($name.to_string(), res_of(&r)));
        }};
    }
    // a get that answers "no such entity" has not been performed (the server answers like that when the permission is missing)
    macro_rules! opt {
        ($name:expr, $c:ident, $fut:expr) => {{
            let $c = provider();
            let r = rt.block_on($fut);
            let res = match &r {
                Ok(None) => "none".to_string(),
                _ => res_of(&r),
            };
            out.push(($name.to_string(), res));
        }};
    }
    op!("ping", c, c.ping());
    op!("get_me", c, c.get_me());
    op!("get_stats", c, c.get_stats());
    op!("get_clients", c, c.get_clients());
    op!("snapshot", c, c.snapshot(iggy::snapshot::SnapshotCompression::Stored, vec![iggy::snapshot::SystemSnapshotType::Test]));
    opt!("get_client", c, c.get_client(1));
    op!("get_users", c, c.get_users());
    opt!("get_user", c, c.get_user(&Identifier::named("other-user").unwrap()));
    op!("create_user", c, c.create_user("made-by-subject", "some-pwd", UserStatus::Active, None));
    op!("update_user", c, c.update_user(&Identifier::named("other-user").unwrap(), None, Some(UserStatus::Active)));
    op!("update_permissions", c, c.update_permissions(&Identifier::named("other-user").unwrap(), None));
    op!("change_password", c, c.change_password(&Identifier::named("other-user").unwrap(), "other-pwd", "other-pwd"));
    op!("delete_user", c, c.delete_user(&Identifier::named("made-by-subject").unwrap()));
    op!("get_personal_access_tokens", c, c.get_personal_access_tokens());
    op!("get_streams", c, c.get_streams());
    opt!("get_stream", c, c.get_stream(&s1));
    op!("get_topics", c, c.get_topics(&s1));
    opt!("get_topic", c, c.get_topic(&s1, &t1));
    op!("get_consumer_groups", c, c.get_consumer_groups(&s1, &t1));
    opt!("get_consumer_group", c, c.get_consumer_group(&s1, &t1, &g1));
    op!("poll_messages", c, c.poll_messages(&s1, &t1, Some(1), &cons, &PollingStrategy::offset(0), 1, false));
    opt!("get_consumer_offset", c, c.get_consumer_offset(&cons, &s1, &t1, Some(1)));
    op!("store_consumer_offset", c, c.store_consumer_offset(&cons, &s1, &t1, Some(1), 0));
    op!("delete_consumer_offset", c, c.delete_consumer_offset(&cons, &s1, &t1, Some(1)));
    {
        let mut msgs = vec![Message::new(None, Bytes::from("by-subject"), None)];
        let c = provider();
        let r = rt.block_on(c.send_messages(&s1, &t1, &Partitioning::partition_id(1), &mut msgs));
        out.push(("append_messages".to_string(), res_of(&r)));
    }
    op!("flush_unsaved_buffer", c, c.flush_unsaved_buffer(&s1, &t1, 1, false));
    if transport == "tcp" {
        op!("join_consumer_group", c, c.join_consumer_group(&s1, &t1, &g1));
        op!("leave_consumer_group", c, c.leave_consumer_group(&s1, &t1, &g1));
    }
    op!("create_consumer_group", c, c.create_consumer_group(&s1, &t1, "made-by-subject", Some(9)));
    op!("delete_consumer_group", c, c.delete_consumer_group(&s1, &t1, &Identifier::numeric(9).unwrap()));
    op!("create_partitions", c, c.create_partitions(&s1, &t1, 1));
    op!("delete_partitions", c, c.delete_partitions(&s1, &t1, 1));
    op!("update_topic", c, c.update_topic(&s1, &t1, "vtopic2", CompressionAlgorithm::None, None, IggyExpiry::NeverExpire, MaxTopicSize::Unlimited));
    op!("purge_topic", c, c.purge_topic(&s1, &t1));
    op!("create_topic", c, c.create_topic(&s1, "made-by-subject", 1, CompressionAlgorithm::None, None, Some(9), IggyExpiry::NeverExpire, MaxTopicSize::Unlimited));
    op!("delete_topic", c, c.delete_topic(&s1, &Identifier::numeric(9).unwrap()));
    op!("update_stream", c, c.update_stream(&s1, "vstream1"));
    op!("purge_stream", c, c.purge_stream(&s1));
    op!("create_stream", c, c.create_stream("made-by-subject", Some(9)));
    op!("delete_stream", c, c.delete_stream(&Identifier::numeric(9).unwrap()));
    out
}
