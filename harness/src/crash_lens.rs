//! Crash lens (C04): a workload runs with the guarded file-mutation hook installed; after EVERY individual file mutation
//! (log append, index append, consumer-offset write, state-log append, segment creation/deletion) the data directory is
//! frozen as a crash image, and for appends torn variants of the last write are derived. Every image is then started with
//! a fresh server, read, appended to and read again. Process-death model: what reached the file survives.
use crate::srv::{self, ScnConfig};
use crate::util::{Rng, TraceWriter};
use bytes::Bytes;
use iggy::client::{ConsumerOffsetClient, MessageClient, PartitionClient, StreamClient, TopicClient};
use iggy::compression::compression_algorithm::CompressionAlgorithm;
use iggy::consumer::Consumer;
use iggy::identifier::Identifier;
use iggy::messages::poll_messages::PollingStrategy;
use iggy::messages::send_messages::{Message, Partitioning};
use iggy::utils::expiry::IggyExpiry;
use iggy::utils::topic_size::MaxTopicSize;
use serde::Deserialize;
use serde_json::{json, Value};
use std::sync::{Arc, Mutex};

#[derive(Debug, Clone, Deserialize)]
pub struct Scenario {
    pub id: String,
    #[serde(default)]
    pub cfg: ScnConfig,
    #[serde(default)]
    pub seed: u64,
    pub steps: Vec<Value>,
    /// every k-th image is recovered (1 = all)
    #[serde(default = "one")]
    pub stride: usize,
    /// only the image left by the graceful shutdown at the end of the workload is recovered (C03)
    #[serde(default)]
    pub graceful_only: bool,
}
fn one() -> usize {
    1
}

pub struct CrashLens {
    pub work: String,
}

fn copy_dir(src: &str, dst: &str) {
    fn walk(s: &std::path::Path, d: &std::path::Path) {
        let _ = std::fs::create_dir_all(d);
        if let Ok(rd) = std::fs::read_dir(s) {
            for e in rd.flatten() {
                let p = e.path();
                let t = d.join(e.file_name());
                if p.is_dir() {
                    walk(&p, &t);
                } else {
                    let _ = std::fs::copy(&p, &t);
                }
            }
        }
    }
    walk(std::path::Path::new(src), std::path::Path::new(dst));
}

#[derive(Clone)]
struct Image {
    n: usize,
    kind: String,
    rel_path: String,
    len_after: u64,
    acked: Vec<u64>,    // messages whose send had returned before this mutation
    sent: Vec<u64>,     // messages handed to send so far (accepted order: one producer, one partition)
    offsets: Vec<i64>,  // every consumer offset value ever requested so far
}

fn parse_m(payload: &[u8]) -> i64 {
    if payload.len() >= 11 && &payload[0..3] == b"<<M" {
        if let Ok(s) = std::str::from_utf8(&payload[3..9]) {
            return s.parse::<i64>().unwrap_or(-1);
        }
    }
    -1
}

impl CrashLens {
    pub fn new(work: &str) -> Self {
        CrashLens { work: work.to_string() }
    }

    pub fn run_scenario(&self, idx: usize, scn: &Scenario, out: &mut TraceWriter) -> Result<(), String> {
        let root = format!("{}/c{}", self.work, idx);
        let _ = std::fs::remove_dir_all(&root);
        let dir = format!("{root}/live");
        std::fs::create_dir_all(&dir).map_err(|e| e.to_string())?;
        srv::set_tick(0);
        let config = srv::build_config(&dir, &scn.cfg, srv::ENC_KEY_A);
        let inc = srv::start(config, &scn.cfg, false)?;
        let rt = &inc.rt;
        let c = rt.block_on(srv::tcp_root(inc.tcp))?;
        let s1 = Identifier::numeric(1).unwrap();
        let t1 = Identifier::numeric(1).unwrap();
        rt.block_on(async {
            c.create_stream("vstream", Some(1)).await.map_err(|e| e.to_string())?;
            c.create_topic(&s1, "vtopic", 1, CompressionAlgorithm::None, None, Some(1), IggyExpiry::NeverExpire, MaxTopicSize::Unlimited)
                .await.map_err(|e| e.to_string())?;
            Ok::<(), String>(())
        })?;
        // shared progress of the workload, read by the hook
        let progress: Arc<Mutex<(Vec<u64>, Vec<u64>, Vec<i64>)>> = Arc::new(Mutex::new((vec![], vec![], vec![])));
        let images: Arc<Mutex<Vec<Image>>> = Arc::new(Mutex::new(vec![]));
        // file sizes when the hook is installed: the length "before" for the first mutation of a file
        let initial: std::collections::HashMap<String, u64> = crate::util::dir_size_files(&dir).into_iter().map(|(p, l)| (p[dir.len()..].to_string(), l)).collect();
        {
            let (progress, images, dir, root) = (progress.clone(), images.clone(), dir.clone(), root.clone());
            server::verif::set_fs_hook(if scn.graceful_only { None } else { Some(Arc::new(move |kind, path| {
                if !path.starts_with(&dir) {
                    return;
                }
                let mut imgs = images.lock().unwrap();
                let n = imgs.len();
                copy_dir(&dir, &format!("{root}/img{n}"));
                let p = progress.lock().unwrap();
                imgs.push(Image {
                    n,
                    kind: kind.to_string(),
                    rel_path: path[dir.len()..].to_string(),
                    len_after: std::fs::metadata(path).map(|m| m.len()).unwrap_or(0),
                    acked: p.0.clone(),
                    sent: p.1.clone(),
                    offsets: p.2.clone(),
                });
            })) });
        }
        let mut rng = Rng(scn.seed ^ 0xc4a5);
        let mut next_m = 1u64;
        let wait = scn.cfg.confirmation != "no_wait";
        for step in &scn.steps {
            match step["op"].as_str().unwrap_or("") {
                "append" => {
                    let k = step["k"].as_u64().unwrap_or(1);
                    let mut msgs = vec![];
                    let mut ms = vec![];
                    for _ in 0..k {
                        let m = next_m;
                        next_m += 1;
                        let mut payload = format!("<<M{:06}>>", m).into_bytes();
                        for _ in 0..rng.below(20) {
                            payload.push(b'a' + (rng.below(26) as u8));
                        }
                        msgs.push(Message::new(None, Bytes::from(payload), None));
                        ms.push(m);
                    }
                    progress.lock().unwrap().1.extend(ms.iter());
                    let _ = rt.block_on(c.send_messages(&s1, &t1, &Partitioning::partition_id(1), &mut msgs));
                    self.update_durable(&inc, &progress, wait);
                }
                "flush" => {
                    let _ = rt.block_on(c.flush_unsaved_buffer(&s1, &t1, 1, false));
                    self.update_durable(&inc, &progress, wait);
                }
                "store" => {
                    let o = step["o"].as_u64().unwrap_or(0);
                    progress.lock().unwrap().2.push(o as i64);
                    let _ = rt.block_on(c.store_consumer_offset(&Consumer::new(Identifier::numeric(1).unwrap()), &s1, &t1, Some(1), o));
                }
                "create_topic" => {
                    let _ = rt.block_on(c.create_topic(&s1, &format!("extra{}", rng.below(100000)), 1, CompressionAlgorithm::None, None, None,
                        IggyExpiry::NeverExpire, MaxTopicSize::Unlimited));
                }
                "create_partitions" => {
                    let _ = rt.block_on(c.create_partitions(&s1, &t1, 1));
                }
                _ => {}
            }
        }
        server::verif::set_fs_hook(None);
        drop(c);
        // the workload ends with a GRACEFUL shutdown (what main.rs does on SIGTERM: System::shutdown, then the process exits):
        // the directory it leaves is one more image, of kind "graceful", which must hold everything that was accepted (C03)
        // (the background persister's next write is delayed a little - guarded schedule point -, so that a shutdown that does
        //  not wait for it loses the batch every time instead of only on a loaded machine)
        server::verif::set_point_hook(Some(Arc::new(|name, _| {
            Box::pin(async move {
                if name == "persister.write" {
                    tokio::time::sleep(std::time::Duration::from_millis(30)).await;
                }
            })
        })));
        let graceful_res = srv::stop(inc, true);
        server::verif::set_point_hook(None);
        {
            let mut imgs = images.lock().unwrap();
            let n = imgs.len();
            copy_dir(&dir, &format!("{root}/img{n}"));
            let p = progress.lock().unwrap();
            imgs.push(Image { n, kind: "graceful".into(), rel_path: String::new(), len_after: 0, acked: p.1.clone(), sent: p.1.clone(), offsets: p.2.clone() });
        }
        let _ = graceful_res;
        let imgs = images.lock().unwrap().clone();
        out.emit(&json!({"ev":"reset","sc":idx,"id":scn.id,"cfg":serde_json::to_value(&scn.cfg).unwrap(),"images":imgs.len(),"wait":wait}));
        let mut i = 0u64;
        for img in imgs.iter().filter(|im| im.n % scn.stride == 0 || im.n + 1 == imgs.len()) {
            let src = format!("{root}/img{}", img.n);
            // torn variants of the last write: the file cut back by 1 byte, to half of the growth, to 1 byte of growth, to no growth
            let prev_len = imgs.iter().rev().find(|j| j.n < img.n && j.rel_path == img.rel_path).map(|j| j.len_after)
                .unwrap_or_else(|| initial.get(&img.rel_path).cloned().unwrap_or(0));
            let mut cuts: Vec<Option<u64>> = vec![None];
            if (img.kind.contains("append") || img.kind == "overwrite") && img.len_after > 0 {
                let base = if img.kind == "overwrite" { 0 } else { prev_len.min(img.len_after) };
                let grow = img.len_after - base;
                for c in [img.len_after - 1, base + grow / 2, base + 1, base] {
                    if c < img.len_after && !cuts.contains(&Some(c)) {
                        cuts.push(Some(c));
                    }
                }
            }
            for cut in cuts {
                i += 1;
                let work = format!("{root}/rec");
                let _ = std::fs::remove_dir_all(&work);
                copy_dir(&src, &work);
                if let Some(len) = cut {
                    let f = format!("{work}{}", img.rel_path);
                    if let Ok(file) = std::fs::OpenOptions::new().write(true).open(&f) {
                        let _ = file.set_len(len);
                    }
                }
                let ev = self.recover(idx, i, scn, img, cut, &work);
                out.emit(&ev);
            }
        }
        let _ = std::fs::remove_dir_all(&root);
        Ok(())
    }

    /// "every message whose write had completed under wait-confirmation": after a call has returned, the messages the
    /// partition reports as saved (not in the unsaved buffer) - read off the live server, a lower bound for later images.
    fn update_durable(&self, inc: &srv::Incarnation, progress: &Arc<Mutex<(Vec<u64>, Vec<u64>, Vec<i64>)>>, wait: bool) {
        if !wait {
            return;
        }
        let system = inc.system.clone();
        let saved: u64 = inc.rt.block_on(async {
            let sys = system.read().await;
            let Ok(stream) = sys.get_stream(&Identifier::numeric(1).unwrap()) else { return 0 };
            let Ok(topic) = stream.get_topic(&Identifier::numeric(1).unwrap()) else { return 0 };
            let Ok(part) = topic.get_partition(1) else { return 0 };
            let part = iggy::locking::IggySharedMutFn::read(&part).await;
            let mut saved = 0u64;
            for s in part.get_segments() {
                let n = if s.size_bytes.as_bytes_u64() == 0 { 0 } else { s.current_offset - s.start_offset + 1 };
                let unsaved = s.unsaved_messages.as_ref().map(|a| a.unsaved_messages_count() as u64).unwrap_or(0);
                saved += n.saturating_sub(unsaved);
            }
            saved
        });
        let mut p = progress.lock().unwrap();
        let n = (saved as usize).min(p.1.len());
        p.0 = p.1[..n].to_vec();
    }

    fn recover(&self, idx: usize, i: u64, scn: &Scenario, img: &Image, cut: Option<u64>, work: &str) -> Value {
        let mut base = json!({"ev":"crash","sc":idx,"i":i,"img":img.n,"at":img.kind,"file":img.rel_path,"torn":cut.map(|c| c as i64).unwrap_or(-1),
                              "acked":img.acked,"sent":img.sent,"offsets":img.offsets});
        let o = base.as_object_mut().unwrap();
        let config = srv::build_config(work, &scn.cfg, srv::ENC_KEY_A);
        let inc = match srv::start(config, &scn.cfg, false) {
            Ok(inc) => inc,
            Err(e) => {
                o.insert("start".into(), json!(if e.contains("panic") { "panic" } else { "failed" }));
                o.insert("why".into(), json!(e));
                return base;
            }
        };
        o.insert("start".into(), json!("ok"));
        let rt = &inc.rt;
        let s1 = Identifier::numeric(1).unwrap();
        let t1 = Identifier::numeric(1).unwrap();
        let obsc = Consumer::new(Identifier::numeric(9999).unwrap());
        let res: Result<Value, String> = (|| {
            let c = rt.block_on(srv::tcp_root(inc.tcp))?;
            let topic = rt.block_on(c.get_topic(&s1, &t1)).map_err(|e| e.to_string())?;
            let Some(topic) = topic else {
                // the crash came before the topic was journalled: nothing to read
                return Ok(json!({"topic": false}));
            };
            if topic.partitions_count == 0 {
                return Ok(json!({"topic": true, "partitions": 0}));
            }
            let read = |c: &iggy::tcp::client::TcpClient| -> Result<(Vec<Value>, u64), String> {
                let pm = rt.block_on(c.poll_messages(&s1, &t1, Some(1), &obsc, &PollingStrategy::offset(0), 100000, false)).map_err(|e| format!("poll: {e}"))?;
                Ok((pm.messages.iter().map(|m| json!([m.offset, parse_m(&m.payload)])).collect(), pm.current_offset))
            };
            let (before, cur) = read(&c)?;
            let stored = match rt.block_on(c.get_consumer_offset(&Consumer::new(Identifier::numeric(1).unwrap()), &s1, &t1, Some(1))) {
                Ok(Some(i)) => i.stored_offset as i64,
                Ok(None) => -1,
                Err(_) => -3,
            };
            // messages accepted after recovery continue at the next offset
            let mut msgs = vec![Message::new(None, Bytes::from("<<M900001>>after-recovery"), None)];
            let sent = rt.block_on(c.send_messages(&s1, &t1, &Partitioning::partition_id(1), &mut msgs)).is_ok();
            // under no-wait confirmation the accepted message reaches the log through the background persister: give it time
            let _ = rt.block_on(c.flush_unsaved_buffer(&s1, &t1, 1, false));
            let (mut after, mut cur2) = read(&c)?;
            if scn.cfg.confirmation == "no_wait" {
                // (generous: on a loaded machine, with fsync, the background persister may take long; only a message that
                //  never becomes readable is a finding)
                for _ in 0..10_000 {
                    if after.len() > before.len() {
                        break;
                    }
                    std::thread::sleep(std::time::Duration::from_millis(3));
                    let r = read(&c)?;
                    after = r.0;
                    cur2 = r.1;
                }
            }
            Ok(json!({"topic": true, "partitions": topic.partitions_count, "read": before, "cur": cur, "stored": stored,
                      "append_ok": sent, "read_after": after, "cur_after": cur2}))
        })();
        match res {
            Ok(v) => {
                for (k, val) in v.as_object().unwrap() {
                    o.insert(k.clone(), val.clone());
                }
            }
            Err(e) => {
                o.insert("read_error".into(), json!(e));
            }
        }
        // the recovered server is shut down gracefully and started once more: what it served (including the message accepted
        // after the recovery) must still be there - a recovery that leaves the files misaligned shows only now
        let _ = srv::stop(inc, true);
        if base.get("read_after").is_some() {
            let config = srv::build_config(work, &scn.cfg, srv::ENC_KEY_A);
            let o = base.as_object_mut().unwrap();
            match srv::start(config, &scn.cfg, false) {
                Err(e) => {
                    o.insert("again".into(), json!(if e.contains("panic") { "panic" } else { "failed" }));
                }
                Ok(inc2) => {
                    let r: Result<Vec<Value>, String> = (|| {
                        let c = inc2.rt.block_on(srv::tcp_root(inc2.tcp))?;
                        let pm = inc2.rt.block_on(c.poll_messages(&s1, &t1, Some(1), &obsc, &PollingStrategy::offset(0), 100000, false)).map_err(|e| format!("poll: {e}"))?;
                        Ok(pm.messages.iter().map(|m| json!([m.offset, parse_m(&m.payload)])).collect())
                    })();
                    match r {
                        Ok(v) => {
                            o.insert("again".into(), json!("ok"));
                            o.insert("read_again".into(), json!(v));
                        }
                        Err(e) => {
                            o.insert("again".into(), json!(format!("unreadable: {e}")));
                        }
                    }
                    let _ = srv::stop(inc2, false);
                }
            }
        }
        base
    }
}
