//! Consumer-group lens (C08, group side of C07): several TCP clients join/leave/drop, partitions come and go,
//! members poll without naming a partition ('next', auto-commit or manual store of the last offset).
use crate::srv::{self, Incarnation, ScnConfig};
use crate::util::{res_of, Rng, TraceWriter};
use bytes::Bytes;
use iggy::client::{
    Client, ConsumerGroupClient, ConsumerOffsetClient, MessageClient, PartitionClient, StreamClient, SystemClient, TopicClient,
};
use iggy::compression::compression_algorithm::CompressionAlgorithm;
use iggy::consumer::Consumer;
use iggy::identifier::Identifier;
use iggy::messages::poll_messages::PollingStrategy;
use iggy::messages::send_messages::{Message, Partitioning};
use iggy::tcp::client::TcpClient;
use iggy::utils::expiry::IggyExpiry;
use iggy::utils::topic_size::MaxTopicSize;
use serde::Deserialize;
use serde_json::{json, Value};

#[derive(Debug, Clone, Deserialize)]
pub struct Scenario {
    pub id: String,
    #[serde(default)]
    pub cfg: ScnConfig,
    #[serde(default)]
    pub seed: u64,
    #[serde(default = "three")]
    pub parts: u32,
    #[serde(default = "three")]
    pub clients: u32,
    pub steps: Vec<Value>,
}
fn three() -> u32 {
    3
}

pub struct GrpLens {
    pub work: String,
}

struct Run<'a> {
    scn: &'a Scenario,
    dir: String,
    inc: Option<Incarnation>,
    admin: Option<TcpClient>,
    members: Vec<Option<(TcpClient, u32)>>,
    last_poll: Vec<Option<u64>>, // last offset returned to client c by its latest poll
    next_m: u64,
    rng: Rng,
}

impl GrpLens {
    pub fn new(work: &str) -> Self {
        GrpLens { work: work.to_string() }
    }

    pub fn run_scenario(&self, idx: usize, scn: &Scenario, out: &mut TraceWriter) -> Result<(), String> {
        let dir = format!("{}/d{}", self.work, idx);
        let _ = std::fs::remove_dir_all(&dir);
        std::fs::create_dir_all(&dir).map_err(|e| e.to_string())?;
        srv::set_tick(0);
        let n = scn.clients as usize + 1;
        let mut run = Run {
            scn,
            dir: dir.clone(),
            inc: None,
            admin: None,
            members: (0..n).map(|_| None).collect(),
            last_poll: vec![None; n],
            next_m: 1,
            rng: Rng(scn.seed ^ 0x9b),
        };
        let r = self.run_inner(idx, &mut run, out);
        run.members.clear();
        drop(run.admin.take());
        if let Some(inc) = run.inc.take() {
            let _ = srv::stop(inc, false);
        }
        let _ = std::fs::remove_dir_all(&dir);
        r
    }

    fn connect_member(&self, run: &mut Run, c: usize) -> Result<(), String> {
        let inc = run.inc.as_ref().unwrap();
        let cl = inc.rt.block_on(srv::tcp_root(inc.tcp))?;
        let me = inc.rt.block_on(cl.get_me()).map_err(|e| format!("get_me: {e}"))?;
        run.members[c] = Some((cl, me.client_id));
        run.last_poll[c] = None;
        Ok(())
    }

    fn start_inc(&self, run: &mut Run) -> Result<(), String> {
        let config = srv::build_config(&run.dir, &run.scn.cfg, srv::ENC_KEY_A);
        let inc = srv::start(config, &run.scn.cfg, false)?;
        let admin = inc.rt.block_on(srv::tcp_root(inc.tcp))?;
        run.inc = Some(inc);
        run.admin = Some(admin);
        for c in 1..run.members.len() {
            self.connect_member(run, c)?;
        }
        Ok(())
    }

    fn run_inner(&self, idx: usize, run: &mut Run, out: &mut TraceWriter) -> Result<(), String> {
        let scn = run.scn;
        self.start_inc(run)?;
        {
            let inc = run.inc.as_ref().unwrap();
            let a = run.admin.as_ref().unwrap();
            inc.rt.block_on(async {
                a.create_stream("vstream", Some(1)).await.map_err(|e| e.to_string())?;
                a.create_topic(&Identifier::numeric(1).unwrap(), "vtopic", scn.parts, CompressionAlgorithm::None, None, Some(1),
                    IggyExpiry::NeverExpire, MaxTopicSize::Unlimited).await.map_err(|e| e.to_string())?;
                a.create_consumer_group(&Identifier::numeric(1).unwrap(), &Identifier::numeric(1).unwrap(), "vgroup", Some(1))
                    .await.map_err(|e| e.to_string())?;
                Ok::<(), String>(())
            })?;
        }
        out.emit(&json!({"ev":"reset","sc":idx,"id":scn.id,"parts":scn.parts,"clients":scn.clients,
                         "cfg":serde_json::to_value(&scn.cfg).unwrap()}));
        for (i, step) in scn.steps.iter().enumerate() {
            let mut ev = self.exec_step(run, step)?;
            {
                let o = ev.as_object_mut().unwrap();
                o.insert("sc".into(), json!(idx));
                o.insert("i".into(), json!(i + 1));
            }
            if ev.get("fatal").is_some() {
                out.emit(&ev);
                break;
            }
            match self.observe(run) {
                Ok(obs) => {
                    ev.as_object_mut().unwrap().insert("obs".into(), obs);
                    out.emit(&ev);
                }
                Err(e) => {
                    ev.as_object_mut().unwrap().insert("fatal".into(), json!(format!("observe failed: {e}")));
                    out.emit(&ev);
                    break;
                }
            }
        }
        Ok(())
    }

    fn exec_step(&self, run: &mut Run, step: &Value) -> Result<Value, String> {
        let op = step["op"].as_str().ok_or("step without op")?.to_string();
        let s1 = Identifier::numeric(1).unwrap();
        let t1 = Identifier::numeric(1).unwrap();
        let g1 = Identifier::numeric(1).unwrap();
        let c = step["c"].as_u64().unwrap_or(1) as usize;
        let mut ev = step.clone();
        {
            let o = ev.as_object_mut().unwrap();
            o.remove("op");
            o.insert("ev".into(), json!(op));
        }
        let mut extra: Vec<(&str, Value)> = vec![];
        let res: String = match op.as_str() {
            "join" | "leave" => {
                let inc = run.inc.as_ref().unwrap();
                let (cl, _) = run.members[c].as_ref().ok_or("no such client")?;
                let r = if op == "join" {
                    inc.rt.block_on(cl.join_consumer_group(&s1, &t1, &g1))
                } else {
                    inc.rt.block_on(cl.leave_consumer_group(&s1, &t1, &g1))
                };
                run.last_poll[c] = None;
                res_of(&r)
            }
            "disconnect" => {
                if let Some((cl, old_id)) = run.members[c].take() {
                    let inc = run.inc.as_ref().unwrap();
                    let _ = inc.rt.block_on(Client::disconnect(&cl));
                    drop(cl);
                    // wait until the server has removed the client (see cat_lens): no fixed pause
                    if let Some(a) = run.admin.as_ref() {
                        for _ in 0..4000 {
                            inc.rt.block_on(async { tokio::time::sleep(std::time::Duration::from_millis(2)).await });
                            if matches!(inc.rt.block_on(iggy::client::SystemClient::get_client(a, old_id)), Ok(None)) {
                                break;
                            }
                        }
                    }
                }
                self.connect_member(run, c)?;
                "ok".to_string()
            }
            "add_parts" | "del_parts" => {
                let k = step["k"].as_u64().unwrap_or(1) as u32;
                let inc = run.inc.as_ref().unwrap();
                let a = run.admin.as_ref().unwrap();
                let r = if op == "add_parts" {
                    inc.rt.block_on(a.create_partitions(&s1, &t1, k))
                } else {
                    inc.rt.block_on(a.delete_partitions(&s1, &t1, k))
                };
                res_of(&r)
            }
            "send" => {
                let p = step["p"].as_u64().unwrap_or(1) as u32;
                let k = step["k"].as_u64().unwrap_or(1);
                let mut msgs = vec![];
                for _ in 0..k {
                    let m = run.next_m;
                    run.next_m += 1;
                    let mut payload = format!("<<M{:06}>>", m).into_bytes();
                    for _ in 0..run.rng.below(20) {
                        payload.push(b'a' + (run.rng.below(26) as u8));
                    }
                    msgs.push(Message::new(None, Bytes::from(payload), None));
                }
                let inc = run.inc.as_ref().unwrap();
                let a = run.admin.as_ref().unwrap();
                res_of(&inc.rt.block_on(a.send_messages(&s1, &t1, &Partitioning::partition_id(p), &mut msgs)))
            }
            "poll" => {
                let n = step["n"].as_u64().unwrap_or(1) as u32;
                let auto = step["auto"].as_bool().unwrap_or(true);
                let inc = run.inc.as_ref().unwrap();
                let (cl, _) = run.members[c].as_ref().ok_or("no such client")?;
                let r = inc.rt.block_on(cl.poll_messages(&s1, &t1, None, &Consumer::group(g1.clone()), &PollingStrategy::next(), n, auto));
                let res = res_of(&r);
                match r {
                    Ok(pm) => {
                        let offs: Vec<u64> = pm.messages.iter().map(|m| m.offset).collect();
                        run.last_poll[c] = offs.last().cloned();
                        extra.push(("part", json!(pm.partition_id)));
                        extra.push(("r", json!(offs)));
                    }
                    Err(_) => {
                        extra.push(("part", json!(0)));
                        extra.push(("r", json!([])));
                    }
                }
                res
            }
            "store_last" => {
                // the member commits the last offset its latest poll returned, without naming the partition
                let inc = run.inc.as_ref().unwrap();
                let (cl, _) = run.members[c].as_ref().ok_or("no such client")?;
                match run.last_poll[c] {
                    Some(o) => {
                        extra.push(("o", json!(o)));
                        res_of(&inc.rt.block_on(cl.store_consumer_offset(&Consumer::group(g1.clone()), &s1, &t1, None, o)))
                    }
                    None => {
                        extra.push(("o", json!(0)));
                        "skipped".to_string()
                    }
                }
            }
            "restart" => {
                let mut res = "ok".to_string();
                for m in run.members.iter_mut() {
                    *m = None;
                }
                drop(run.admin.take());
                let inc = run.inc.take().unwrap();
                if let Err(e) = srv::stop(inc, true) {
                    res = if e.starts_with("panic") { "panic".into() } else { format!("err:{e}") };
                }
                if let Err(e) = self.start_inc(run) {
                    let o = ev.as_object_mut().unwrap();
                    o.insert("res".into(), json!(res));
                    o.insert("fatal".into(), json!(format!("start failed: {e}")));
                    return Ok(ev);
                }
                res
            }
            other => return Err(format!("unknown op {other}")),
        };
        let o = ev.as_object_mut().unwrap();
        o.insert("res".into(), json!(res));
        for (k, v) in extra {
            o.insert(k.into(), v);
        }
        Ok(ev)
    }

    fn observe(&self, run: &mut Run) -> Result<Value, String> {
        let inc = run.inc.as_ref().unwrap();
        let a = run.admin.as_ref().unwrap();
        let s1 = Identifier::numeric(1).unwrap();
        let t1 = Identifier::numeric(1).unwrap();
        let g1 = Identifier::numeric(1).unwrap();
        let topic = inc.rt.block_on(a.get_topic(&s1, &t1)).map_err(|e| format!("get_topic: {e}"))?.ok_or("topic missing")?;
        let group = inc.rt.block_on(a.get_consumer_group(&s1, &t1, &g1)).map_err(|e| format!("get_consumer_group: {e}"))?
            .ok_or("group missing")?;
        let mut members = vec![];
        for m in &group.members {
            let c = run.members.iter().position(|x| x.as_ref().map(|(_, id)| *id) == Some(m.id)).unwrap_or(0);
            let mut ps = m.partitions.clone();
            ps.sort();
            members.push((c, ps));
        }
        members.sort();
        let mut goff = vec![];
        let mut lens = vec![];
        let mut pids: Vec<u32> = topic.partitions.iter().map(|p| p.id).collect();
        pids.sort();
        for pid in &pids {
            let r = inc.rt.block_on(a.get_consumer_offset(&Consumer::group(g1.clone()), &s1, &t1, Some(*pid)));
            goff.push(match r {
                Ok(Some(i)) => i.stored_offset as i64,
                Ok(None) => -1,
                Err(_) => -3,
            });
            lens.push(topic.partitions.iter().find(|p| p.id == *pid).unwrap().messages_count);
        }
        Ok(json!({"P": topic.partitions_count, "gparts": group.partitions_count, "mcount": group.members_count,
                  "members": members.iter().map(|(c, ps)| json!([c, ps])).collect::<Vec<_>>(), "goff": goff, "lens": lens}))
    }
}
