"""Concurrency lens (specs/LogMTHistory.tla, IggyLogMT.tla, Trace_IggyLogMT.tla; harness lens `mt`). Serves C12."""
import json, os, random, time
from common import *

LENS = 'mt'
TRACE_MODULE = 'Trace_IggyLogMT'
FAMILIES = {'C12': ['stress']}
MSG = 61


def mc_family(family, tier, wd):
    cfg = os.path.join(wd, 'MC_logmt.cfg')
    consts = dict(Producers='{1,2}', Pollers='{1}', NBatches=1, MaxPolls=2) if tier == 'quick' else dict(Producers='{1,2}', Pollers='{1}', NBatches=2, MaxPolls=1)
    write_cfg(cfg, 'Spec', consts, invariants=['HistoryOK'])
    t0 = time.time()
    r = tlc_mc('IggyLogMT', cfg, wd, workers=8, timeout=2400)
    log(f'logmt: MC {r["distinct"]} distinct states in {time.time() - t0:.0f}s')
    r['consts'] = consts
    return r


def build_scenarios(families, tier, wd, seed):
    rnd = random.Random(seed)
    scenarios = []
    n = 0
    reps = 12 if tier == 'quick' else 120
    for thr in (1, 2, 3, 1000):
        for seg in (0, 5 * MSG, 12 * MSG):
            for cache in ('off', 'large'):
                for conf in ('wait', 'no_wait'):
                    for rep in range(reps if (cache == 'off') else max(1, reps // 3)):
                        n += 1
                        scenarios.append(dict(id=f'stress-{n}', family='stress', seed=rnd.randrange(1 << 30),
                                              cfg=dict(save_threshold=thr, segment_bytes=seg, cache=cache, confirmation=conf, threads=rnd.choice([2, 4]),
                                                       cache_indexes=(rep % 3 != 1)),   # every third history reads the index from the file
                                              producers=rnd.choice([2, 3, 4]), pollers=rnd.choice([1, 2, 3]), batches=rnd.choice([6, 10, 16]),
                                              polls=rnd.choice([20, 40]), steps=[1, 2, 3]))
    return scenarios, {'stress': dict(histories=len(scenarios), repetitions_per_config=reps)}


def shard(scenarios, nshards):
    by_cache = {}
    for s in scenarios:
        by_cache.setdefault(s['cfg'].get('cache', 'off'), []).append(s)
    shards = []
    for cache, lst in by_cache.items():
        k = max(1, round(nshards * len(lst) / max(1, len(scenarios))))
        for i in range(k):
            if lst[i::k]:
                shards.append(lst[i::k])
    return shards


def attribute(prop, scn, events_bad):
    return [(i, ev, lab) for i, (ev, labels) in sorted(events_bad.items()) for lab in labels]


def nontrivial(prop, scn, evs):
    # polls that overlapped an in-flight send (the interesting interleavings actually happened)
    for e in evs:
        if e['ev'] != 'history':
            continue
        for p in e['polls']:
            if any(s['t0'] < p['t1'] and p['t0'] < s['t1'] for s in e['sends']):
                return True
    return False

RULES = {'C12': 'histories in which at least one poll overlapped an in-flight send (by the recorded sequence numbers)'}
ASSUMPTIONS = ['multi-thread server runtime (2-4 workers), every producer / poller on its own TCP connection; schedules are whatever the OS and tokio produce (no forced schedules in this lens)',
               'only the sound direction of the recorded order is used: a.t1 < b.t0 implies a before b',
               'under no-wait confirmation "acknowledged implies visible" is not demanded (the statement limits it to wait-confirmation); runs, torn reads, duplicates and losses are judged in both modes',
               'a violation found by stress may not reproduce on re-run: the replay artefact is the scenario (seed and configuration), the evidence is the recorded history']
