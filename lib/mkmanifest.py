#!/usr/bin/env python3
"""Regenerates /verif/MANIFEST.json from the table below (single source for the interface file)."""
import json, os, subprocess
V = os.path.dirname(os.path.dirname(os.path.abspath(__file__)))
props = [json.loads(l) for l in open(os.path.join(V, 'properties.jsonl'))]

TRACE_NOTE = ('Trusted base: TLC 1.8, the harness (harness/src) and its projection of internal state (segment list, cache window), '
              'the recorded trace being what the server really answered. Design-level: exhaustive only within the constants in the '
              'evidence; code-level: only the executed scenarios (TLC-enumerated scripts to a small depth, simulated walks, '
              'regression scenarios) under the listed configurations.')

CHECKS = {
    'C01': dict(engine='loglens', technique='TLA+ spec IggyLog + TLC model checking; TLC-generated scripts replayed on the real server over TCP; recorded traces validated by TLC (Trace_IggyLog)',
                text='Model checking of the bounded IggyLog instances (layout, retention, dedup) plus trace validation: every executed history over send/flush/save/restart/purge/retention is judged step by step against the specification (current offset, dense offsets, the batch at the expected offsets). model_checking is the right level because the property is a statement about all histories of a small state machine; the code is bound by conformance, not proved.',
                ref='3.1, 7/C01'),
    'C02': dict(engine='loglens', technique='TLA+ spec IggyLog (Slices/FirstN/LastN/ByRank/NextSet operators) + TLC trace validation of full observation sweeps recorded from the real server',
                text='After every step of every executed history the harness polls every (offset,count) pair, first/last/next/timestamp polls through the real TCP handlers; TLC checks each answer against the specification operator on the spec state (content compared field by field by the harness). Exhaustive over polls per state, enumerated/simulated over histories and a configuration matrix that moves the same range between cache, buffer, batches and segments.',
                ref='3.1, 2.3, 7/C02'),
    'C03': dict(engine='loglens', technique='TLA+ spec IggyLog (Restart = identity on log/offsets) + TLC trace validation across in-process clean restarts',
                text='Restart (graceful shutdown, or flush of every partition followed by an abrupt end) is an action of the script alphabet; the full sweep after the restart and the append that follows must equal the specification state, which a restart leaves unchanged. Disagreements that appear with a restart are attributed to C03. A second lens (crash lens, family graceful) ends workloads under {wait, no-wait} x {fsync} x {save threshold, segment size} with a graceful shutdown (System::shutdown, then the process ends) and recovers the directory it leaves: everything that was accepted must be there.',
                ref='3.1, 7/C03'),
    'C07': dict(engine='loglens', technique='TLA+ spec IggyLog (stored offsets per kind/id/partition) + TLC model checking of the offsets instance + trace validation',
                text='Two lenses. Log lens: identities consumer 1, consumer 2 / named consumer, group 1 by id and by name on two partitions (and a group life-cycle family: store, delete group, re-create). Group lens: members committing with and without naming the partition. In both, after every step the stored offset and next-poll of every identity on every partition is read and compared with the specification (StoredIsolated is also model-checked as an action property). A small family with a complete path cover exercises auto-commit of polls BY OFFSET, forwards and backwards (the stored offset becomes the last offset the poll returned).',
                ref='3.1, 7/C07'),
    'C14': dict(engine='loglens', technique='TLA+ spec IggyLog (RemovedOK/Expired/LoAfter) + TLC model checking of the retention instance + trace validation with a controlled clock',
                text='Clock ticks (hook H1), expiry updates, real maintenance passes (MaintainMessagesExecutor) and restarts; every segment that disappears must be closed and expired in specification time, the current offset must not move, appends continue at the next offset and reads below the earliest retained offset start at it.',
                ref='3.1, 7/C14'),
    'C18': dict(engine='loglens', technique='TLA+ spec IggyLog (Accepted/KeepFresh) + TLC model checking of the dedup instance + trace validation',
                text='Sends with repeating ids (within a batch, across batches, across persist boundaries and restarts) with de-duplication on; the log the server serves must be the specification log in which only first occurrences are kept and no offset is consumed by a dropped message.',
                ref='3.1, 7/C18'),
    'C05': dict(engine='catlens', technique='TLA+ spec IggyCatalogue (Restart = identity on the catalogue relations) + TLC model checking + TLC-generated command scripts over TCP and HTTP + TLC trace validation',
                text='Every executed command sequence (server- and client-chosen ids, by-id and by-name addressing, deletes and re-creations) is followed by one or more in-process restarts; the normalised answers of every get/list call, the per-partition message counts and the directory tree after the restart must equal the specification relations, which a restart leaves unchanged. Histories issued by two clients AT ONCE: the lock discipline of the handlers is a TLA+ model (IggyCatalogueMT: exclusive effect, downgrade, journal; the as-found discipline - purge under the shared lock - is a negative control TLC must refute), and the interleaving it must exclude is forced on the real code through a guarded schedule point at the entry of FileState::apply: both commands acknowledged, then the restart must succeed and show the same catalogue.',
                ref='3.4, 7/C05'),
    'C06': dict(engine='catlens', technique='TLA+ spec IggyCatalogue (sequential map over flat relations, WellFormed, OneStreamPerStep) + TLC model checking + trace validation of valid and invalid command sequences',
                text='The specification decides for every command whether it must be refused (duplicate names/ids, unknown targets, rename onto taken names) and what it changes; after every step the sets the server reports (streams, topics, groups, message counts, users, memberships, directories, by-id = by-name lookups) must equal the relations. A panic or closed connection is a violation.',
                ref='3.4, 7/C06'),
    'C15': dict(engine='topiclens', technique='TLA+ spec IggyTopic (MustRefuse gate, OldestOK, LimitAllowed) + TLC model checking + trace validation with measured sizes',
                text='Sends at, below and above the limit with deletion of oldest segments on and off, limit updates (also below one segment) and real maintenance passes; each send outcome is compared with the gate evaluated on the size the server reports, each disappearing segment with the clean-up rule. In limited topics a reported partition / topic size that is not the stored size is a C15 violation as well (the limit is enforced on that figure).',
                ref='3.3, 7/C15'),
    'C16': dict(engine='topiclens', technique='TLA+ spec IggyTopic (retained counts per partition, sums) + TLC trace validation of the counter hierarchy against polls, projection and bytes on disk',
                text='After every step partition/topic/stream/stats counts and sizes are compared: partition count = retained messages of the specification, topic = sum of partitions, stream = sum of topics (a sibling topic and stream receive data too), stats = sum of streams and exact entity/segment counts (against the internal projection), sizes = bytes on disk at quiescent points; also across purge, partition deletion, maintenance and restart. The catalogue lens adds: the server statistics (stream, topic, partition, segment, group and message counts) equal the specification\'s relations after every catalogue command - refused ones included -, and every partition / topic reports the size of its log files for messages sent over TCP, HTTP and QUIC.',
                ref='3.3, 7/C16'),
    'C17': dict(engine='topiclens', technique='TLA+ spec IggyTopic (MayLand relation, keyMap, rotation window) + TLC model checking + trace validation',
                text='Sends by partition id (valid and invalid), by key (seeded lengths 1..255) and balanced, interleaved with partition additions/removals and restarts; the landing partition is read off the full read of every partition and judged relationally: named partition or refusal, fixed partition per key and partition count, P consecutive balanced sends on P distinct partitions, exactly one partition per send. A family of balanced-only histories (every history of 4, thorough 6, sends / partition additions / removals of 1, 2 or all partitions from 3 partitions) checks the rotation across shrinking and growing topics; a valid send that is refused for another reason than a full topic is a violation.',
                ref='3.3, 7/C17'),
    'C08': dict(engine='grplens', technique='TLA+ spec IggyGroups (ExclusiveBalanced relation, MayServe rotation window, NextOffsets on the shared group offset) + TLC model checking over every balanced assignment + trace validation with 3 TCP clients',
                text='Join/leave/dropped connections/partition additions and removals/sends/polls (no partition named, next, auto-commit or manual commit) by three real TCP clients; after every step get_consumer_group and the group offset of every partition are compared with the specification: assignment exclusive and balanced, each poll served from the member\'s own share and in rotation, the offsets returned exactly the ones after the group offset (GroupExactlyOnce is also model-checked as an invariant of a ghost delivery log). Memberships across several topics and streams (the same client in groups of two topics, dropped connections, deletions) are judged by the catalogue lens (families groups and seeded; label CAT.members): a member that is gone must not stay a member anywhere.',
                ref='3.5, 7/C08'),
    'C09': dict(engine='permlens', technique='TLA+ spec IggyPerm (Granted = largest reading of the documented hierarchy; MonotoneStep/RootAll model-checked) + TLC validation of a decision table computed on the real Permissioner, of an unauthenticated sweep over TCP/HTTP and of op-binding traces',
                text='(1) Every rule of the real Permissioner evaluated (inside catch_unwind) on a structured set of permission records; TLC checks per line: allow implies Granted (no escalation, scoping: parts for another stream/topic are invisible to Granted), no panic, root allowed everywhere, and that one-step-larger records never revoke. (2) Every SDK call on connections that never authenticated / logged out, over TCP (client-side state forced so the request reaches the server) and HTTP: refused except ping and the declared public HTTP paths, state unchanged. (3) A real user given records through update_permissions on an already open connection performs every operation; performed implies Granted for the part of the record that applies to the operation\'s target; permissions stripped and user deleted on the open connection; root cannot be deleted or stripped. The operation list includes get_snapshot (granted like the other server-information operations).',
                ref='3.7, 7/C09'),
    'C10': dict(engine='authlens', technique='TLA+ spec IggyAuth (PasswordValid/TokenValid) + TLC model checking + TLC-generated histories + trace validation with an all-candidate login sweep over TCP and HTTP, session probes and a raw-secret file scan',
                text='Histories over user creation, status and password changes, token creation/expiry/deletion, logins, logouts, clock ticks, the token cleaner and restarts; after every step a login is attempted with every (user, password) pair and every token ever issued over TCP and HTTP and must succeed iff the specification says the credential is valid now; connections are probed (logout de-authenticates) and every file under the data directory is scanned for every raw password/token. In every second scenario root\'s user administration (create, change password, status, delete) goes over HTTP (those handlers journal on their own); fixed scripts let time pass before a restart so that a token\'s expiry moment must survive it.',
                ref='3.7, 7/C10'),
    'C11': dict(engine='jrnlens', technique='TLA+ spec IggyJournal (appliers, loader predicate, tamper operators; Serialized design model-checked, original design refuted as negative control) + TLC-judged forced schedules / injected failures on the real FileState and an exhaustive byte-level tamper sweep on real journal files',
                text='Design: TLC checks AlwaysLoadable for 3 appliers and 2 failed appends and TamperEvident for journals of 1-5 entries. Code: every order of 2-3 concurrent FileState::apply calls is forced through the guarded schedule point, with every set of failing appends (guarded fault switch); the real loader must then load consecutive indices containing every acknowledged command, also after one more command. Tamper: every byte x {bit flips, 0x00, 0xFF}, every truncation, every entry removal/duplication/swap of real plain and encrypted journals; the loader must answer an error, or a prefix only when a whole suffix was lost; never a different history, never a panic.',
                ref='3.6, 7/C11'),
    'C13': dict(engine='wirelens', technique='TLA+ spec IggyWire (garbage-frame isolation) + TLC-validated SDK-encode/server-decode round trips of every command type with structure-aware boundary values, garbage frames on raw sockets, and the catalogue lens end to end over TCP and HTTP/JSON',
                text='Agreement is decided where a specification can decide it: (1) every request type the SDK builds, with seeded boundary values, is decoded by the server\'s own decoder to an equal request with the same validity (TLC judges each recorded round trip); (2) malformed frames on one raw connection while a second connection works: error or closed, state and the other connection untouched; (3) responses and HTTP/JSON: every catalogue scenario (names of 1..255 bytes, by id / by name) over both transports must make the SDK-decoded answers equal the specification relations. Fidelity over ALL values is sampled, not exhaustive. (4) Poll responses: messages with payloads of 1..4096 bytes (boundary lengths), with and without headers of every kind, explicit and server-assigned ids, sent over TCP, HTTP and QUIC and polled back over all three in every window (offset, 1..3) and as a whole, compared with what was sent; the catalogue scenarios run over TCP, HTTP/JSON and QUIC. Round-trip instances include an empty message inside a non-empty batch (validity must agree). The group details (every member with its partitions, also members owning none) as decoded by the SDK are judged by the group lens.',
                ref='3.8, 7/C13'),
    'C19': dict(engine='loglens', technique='the data-path and catalogue specifications (IggyLog, IggyCatalogue) with the encryption bit on + TLC trace validation + plaintext scan of every file as an observed variable + restart with a different key',
                text='Same scenarios as C01-C03/C05 with encryption on: every sweep must still equal the specification (lossless), no payload marker / journalled name may be found in clear in any file after any step, the journal must be replayable after restart with the same key, and after a restart with another key the server must refuse to start or answer errors - never hand out a message. A start with ANOTHER key must fail (the undecryptable journal is reported as an error), must in no case hand out old data, and the following start with the right key must restore catalogue and data exactly. A second lens (wire lens, family crypto) sweeps the shared encryptor over every length 0..600 (lossless, nothing in clear, another key / truncations / bit flips are errors, never panics) and round-trips encrypted messages of boundary lengths over TCP and HTTP.',
                ref='7/C19'),
    'C12': dict(engine='mtlens', technique='TLA+ specs IggyLogMT (operational: SendStart/Commit/SendEnd, PollStart/PollRead/PollEnd with a ghost history) and LogMTHistory (history-level statement) + TLC model checking that every history of the model satisfies the statement + TLC validation of histories recorded from multi-threaded stress runs of the real server',
                text='Design: TLC checks that every complete history of the operational model (2 producers, 1 poller) satisfies the history predicates (total order of whole batches, producer order, polls are runs, no torn batch, no read from the future, acknowledged-implies-visible). Code: 2-4 producers and 1-3 pollers on their own TCP connections against a multi-thread server, with flushes and background saves, under {save threshold} x {segment size} x {cache} x {wait, no-wait}; every call is recorded with global sequence numbers and the recorded history is judged by the same predicates against the final content.',
                ref='3.2, 7/C12'),
    'C04': dict(engine='crashlens', category='fault_enumeration', technique='TLA+ spec IggyCrash (write order log -> index, crash after any mutation with torn last write, Recover; RecoverIsPrefix model-checked) + enumeration of crash images at every file mutation of real workloads (guarded hook) with torn variants, each recovered by a fresh server and judged by TLC against the recovery postcondition',
                text='Fault enumeration: for workloads under {wait, no-wait} x {fsync} x {save threshold, segment size} the data directory is frozen after every individual file mutation (log append, index append, consumer-offset write, state-log append, segment creation) and torn variants of the last write are derived; every image is started with a fresh server, read, appended to and read again. TLC checks each recovery: start-up succeeds (a torn trailing state entry may be refused), the partition exposes a dense prefix of the accepted messages containing everything whose write had completed under wait-confirmation, the stored offset is a value that was stored, and the next message continues at the next offset. The recovered server is then shut down gracefully and started once more: it must serve exactly what it served before (a recovery that leaves the files misaligned shows only then). The image left by the graceful shutdown that ends each workload is recovered as well.',
                ref='7/C04'),
    'C20': dict(engine='sdklens', category='model_checking', technique='TLA+ reference algorithm of the SDK consumer (IggySdk: Fetch / Yield / asynchronous commit delivery / interval commit / Drop / Recreate) model-checked for every commit mode x batch size x single|group (InOrderOnce, CommitLeFetched, CommitLeYielded, Complete, NoRewindByDropped; three as-found variants kept as negative controls that TLC must refute) + TLC-generated scripts run on the REAL IggyProducer / IggyConsumer through a recording transport, traces validated by TLC (Trace_IggySdk) with the same predicates (IggySdkProps)',
                text='The consumer algorithm of the SDK is a TLA+ specification whose invariants are the property; TLC explores all interleavings of fetches, yields, background commit deliveries, interval commits, drops and re-creations for all settings. TLC-generated operation scripts (send / take next / drop and re-create), crossed with producer settings (batch size, send interval, default partitioning, all four send calls, client-side encryption) and consumer settings (16 commit modes - the After(...) modes through consume_messages() -, batch sizes, strategies, single / group), drive the real IggyProducer and IggyConsumer against an in-process server; the client they talk through records every send_messages, poll_messages and store_consumer_offset, interleaved with the messages the consumer yields; an administrator reads every partition of every fixture topic and the stored offsets after each step. TLC validates each trace: destination and partitioning of every chunk, chunk order and size, nothing stored elsewhere, yields in offset order without gaps or repeats from right after the committed offset, explicit commits never beyond the last yielded message, commit-on-fetch only in the polling modes, the idle consumer has reached the end of its partitions, a dropped consumer commits nothing more, tracked commits equal the server\'s stored offsets (observed in windows with no commit in flight).',
                ref='7/C20'),
}

def main():
    hooks_commits = subprocess.run(['git', '-C', '/repo', 'log', '--format=%h %s', '--grep=verif hook'], capture_output=True,
                                   text=True).stdout.strip().splitlines()
    m = dict(
        version=1,
        setup_cmd='./setup.sh',
        hooks=dict(guard='iggy_verif',
                   enable="RUSTFLAGS --cfg iggy_verif, set for the harness build in /verif/harness/.cargo/config.toml (the harness depends on /repo/server and /repo/sdk by path)",
                   baseline_off_cmd='cd /repo && cargo nextest run --workspace --no-fail-fast --tool-config-file pb:/w/lib/nextest.toml --profile pb --test-threads 8 --offline; python3 /verif/lib/baseline_check.py',
                   source_commits=[c.split()[0] for c in hooks_commits],
                   add_only=True),
        engines=[dict(name='loglens', path='lib/loglens.py + harness/src/log_lens.rs + specs/IggyLog.tla, MC_IggyLog.tla, Trace_IggyLog.tla',
                      serves_properties=[p for p, c in CHECKS.items() if c['engine'] == 'loglens'],
                      kind_free_text='explicit TLA+ specification, TLC model checking, TLC-generated scripts executed on the real server, TLC trace validation'),
                 dict(name='topiclens', path='lib/topiclens.py + harness/src/topic_lens.rs + specs/IggyTopic.tla, MC_IggyTopic.tla, Trace_IggyTopic.tla',
                      serves_properties=[p for p, c in CHECKS.items() if c['engine'] == 'topiclens'],
                      kind_free_text='same technique, topic level (partition selection, size limit, counters)'),
                 dict(name='catlens', path='lib/catlens.py + harness/src/cat_lens.rs + specs/IggyCatalogue.tla, MC_IggyCatalogue.tla, Trace_IggyCatalogue.tla',
                      serves_properties=[p for p, c in CHECKS.items() if c['engine'] == 'catlens'],
                      kind_free_text='same technique, catalogue level over TCP and HTTP with restarts'),
                 dict(name='grplens', path='lib/grplens.py + harness/src/grp_lens.rs + specs/IggyGroups.tla, MC_IggyGroups.tla, Trace_IggyGroups.tla',
                      serves_properties=['C08', 'C07'],
                      kind_free_text='same technique, consumer groups with several TCP clients'),
                 dict(name='authlens', path='lib/authlens.py + harness/src/auth_lens.rs + specs/IggyAuth.tla, MC_IggyAuth.tla, Trace_IggyAuth.tla',
                      serves_properties=['C10'], kind_free_text='same technique, credential life cycle'),
                 dict(name='permlens', path='lib/permlens.py + harness/src/perm_lens.rs + specs/IggyPerm.tla, MC_IggyPerm.tla, Trace_IggyPerm.tla',
                      serves_properties=['C09'], kind_free_text='TLC-validated decision table / sweeps against the documented permission hierarchy'),
                 dict(name='jrnlens', path='lib/jrnlens.py + harness/src/jrn_lens.rs + specs/IggyJournal.tla, MC_IggyJournal.tla, Trace_IggyJournal.tla',
                      serves_properties=['C11'], kind_free_text='journal appliers under forced schedules/faults (hooks H4/H5) and byte-level tamper sweep'),
                 dict(name='wirelens', path='lib/wirelens.py + harness/src/wire_lens.rs + specs/IggyWire.tla, Trace_IggyWire.tla',
                      serves_properties=['C13'], kind_free_text='request round trips through the server decoder (hook H7), garbage frames'),
                 dict(name='mtlens', path='lib/mtlens.py + harness/src/mt_lens.rs + specs/IggyLogMT.tla, LogMTHistory.tla, Trace_IggyLogMT.tla',
                      serves_properties=['C12'], kind_free_text='multi-threaded stress histories validated against a history-level specification'),
                 dict(name='sdklens', path='lib/sdklens.py + harness/src/sdk_lens.rs, rec_client.rs (generated by lib/gen_rec_client.py) + specs/IggySdkProps.tla, IggySdk.tla, MC_IggySdk.tla, Trace_IggySdk.tla',
                      serves_properties=['C20'], kind_free_text='real IggyProducer / IggyConsumer behind a recording transport; TLC-generated scripts; trace validation'),
                 dict(name='crashlens', path='lib/crashlens.py + harness/src/crash_lens.rs + specs/IggyCrash.tla, Trace_IggyCrash.tla',
                      serves_properties=['C04'], kind_free_text='crash images at every file mutation (hook H6) + torn variants, recovered and judged against the recovery postcondition')],
        checks=[],
        notes='See DESIGN.md. Exit codes: 0 held, 1 + VIOLATION line, 2 tool error. known-findings.json lists fixed and open findings.',
        not_applicable=[],
    )
    for p in props:
        pid = p['id']
        if pid in CHECKS:
            c = CHECKS[pid]
            m['checks'].append(dict(
                property_id=pid,
                quick_cmd=f'./check {pid} --tier quick',
                thorough_cmd=f'./check {pid} --tier thorough',
                evidence_file=f'evidence/{pid}.json',
                replay_cmd_template=f'./check {pid} --replay {{path}}',
                engine=c['engine'],
                level_claimed=dict(category=c.get('category', 'model_checking'), text=c['text'], design_ref=c['ref']),
                level_note=c.get('note', TRACE_NOTE),
                technique=c['technique']))
        else:
            m['not_applicable'].append(dict(property_id=pid, reason='check not built yet (work in progress, see DESIGN.md section 12)'))
    json.dump(m, open(os.path.join(V, 'MANIFEST.json'), 'w'), indent=1)
    print('checks:', [c['property_id'] for c in m['checks']])

if __name__ == '__main__':
    main()
