"""Catalogue lens (specs/IggyCatalogue.tla, MC_IggyCatalogue.tla, Trace_IggyCatalogue.tla; harness lens `cat`). Serves C05 C06."""
import json, os, random, time
from common import *

LENS = 'cat'
TRACE_MODULE = 'Trace_IggyCatalogue'
FAMILIES = {'C05': ['streams', 'topics', 'groups', 'seeded', 'users', 'race'], 'C06': ['streams', 'topics', 'groups', 'seeded', 'users'],
            'C19': ['topics', 'users'],
            'C13': ['streams', 'topics', 'users'],
            # C08 "assigned to exactly one CURRENT member": memberships across several topics and streams (joins, leaves, dropped
            # connections, deletions) are a relation of the catalogue; the group lens itself works on one topic
            'C08': ['groups', 'seeded'],
            # C16 "server statistics ... exact stream, topic, partition, segment and consumer-group counts", and reported sizes =
            # stored bytes for messages sent over EVERY transport (the topic lens sends over TCP only)
            'C16': ['topics', 'seeded']}

BASE = dict(SIds='{0}', SNames='{"sa"}', TIds='{0}', TNames='{"ta"}', GIds='{0}', GNames='{"ga"}', UNames='{"alice"}',
            Clients='{1}', MaxId=3, Seeded='FALSE')
GEN = {
    'streams': dict(consts=dict(BASE, SIds='{0,2}', SNames='{"sa","sb"}',
                                Ops='{"create_stream","update_stream","delete_stream","restart"}'), depth=3, gen=(2, 3), transports=['tcp', 'http', 'quic']),
    'topics': dict(consts=dict(BASE, TIds='{0,2}', TNames='{"ta","tb"}',
                               Ops='{"create_stream","create_topic","update_topic","delete_topic","purge_topic","create_partitions","delete_partitions","send","delete_stream","purge_stream","restart"}'),
                   depth=3, gen=(1, 2), transports=['tcp', 'http', 'quic']),
    'groups': dict(consts=dict(BASE, GIds='{0,2}', GNames='{"ga","gb"}', Clients='{1,2}',
                               Ops='{"create_stream","create_topic","create_group","delete_group","join","leave","disconnect","expire","delete_topic","delete_stream","restart"}'),
                   depth=4, gen=(1, 2), transports=['tcp']),
    # from a populated catalogue (two topics with same-named groups, a client member of both): every command, depth 2
    'seeded': dict(consts=dict(BASE, TIds='{0}', TNames='{"ta","tb"}', GNames='{"ga"}', Clients='{1,2}', Seeded='TRUE',
                               Ops='{"delete_topic","delete_group","leave","disconnect","expire","delete_stream","purge_topic","delete_partitions","create_partitions","send","restart","update_topic","join"}'),
                   depth=2, gen=(1, 2), transports=['tcp']),
    'users': dict(consts=dict(BASE, UNames='{"alice","bobby"}', Ops='{"create_user","update_user","delete_user","restart"}'),
                  depth=3, gen=(2, 3), transports=['tcp', 'http', 'quic']),
}


def mc_family(family, tier, wd):
    if family == 'race':
        # two clients at once: the lock discipline of the handlers (IggyCatalogueMT); the as-found one must be refuted
        consts = dict(Inst='{1,2}', Topics='{1}' if tier == 'quick' else '{1,2}', PurgeExclusive='TRUE', ReleaseEarly='{}')
        cfg = os.path.join(wd, 'MC_race.cfg')
        write_cfg(cfg, 'Spec', consts, invariants=['Replayable', 'SameCatalogue'])
        r = tlc_mc('IggyCatalogueMT', cfg, wd, workers=4, timeout=1200)
        cfg2 = os.path.join(wd, 'MC_race_asfound.cfg')
        write_cfg(cfg2, 'Spec', dict(Inst='{1}', Topics='{1}', PurgeExclusive='FALSE', ReleaseEarly='{}'), invariants=['Replayable'])
        r2 = tlc_mc('IggyCatalogueMT', cfg2, wd, workers=1, timeout=300)
        if r2['ok']:
            raise ToolError('the as-found lock discipline (purge under the shared lock) was NOT refuted: the model lost its teeth')
        cfg3 = os.path.join(wd, 'MC_race_release.cfg')
        write_cfg(cfg3, 'Spec', dict(Inst='{1,2}', Topics='{1}', PurgeExclusive='TRUE', ReleaseEarly='{"delete"}'), invariants=['Replayable', 'SameCatalogue'])
        r3 = tlc_mc('IggyCatalogueMT', cfg3, wd, workers=1, timeout=300)
        if r3['ok']:
            raise ToolError('a delete that releases the lock before it journals was NOT refuted: the model lost its teeth')
        log(f'race: IggyCatalogueMT {r["distinct"]} distinct states; as-found discipline refuted as expected')
        r['consts'] = dict(consts, negative_control='PurgeExclusive=FALSE refuted: ' + ','.join(r2['violated']))
        return r
    g = GEN[family]
    consts = dict(g['consts']); consts['MaxOps'] = g['depth'] + (1 if tier == 'quick' else 2)
    cfg = os.path.join(wd, f'MC_{family}.cfg')
    write_cfg(cfg, 'MCSpec', consts, invariants=['WellFormed'], properties=['OneStreamPerStep'], constraint='Bounded', view='View')
    t0 = time.time()
    r = tlc_mc('MC_IggyCatalogue', cfg, wd, workers=8, timeout=2400)
    log(f'{family}: MC {r["distinct"]} distinct states, {r["states"]} transitions in {time.time() - t0:.0f}s')
    r['consts'] = consts
    return r


def concretise(script, rnd, transport):
    """model names -> concrete names of seeded lengths (never all digits, no characters that need escaping in an HTTP path);
    lengths 1..255 (one- and two-byte names included)."""
    table = {}
    def name(model, kind):
        if model not in table:
            n = rnd.choice({'s': [1, 2, 4, 9, 40, 255], 't': [1, 3, 4, 11, 64, 255], 'g': [1, 2, 8, 255], 'u': [3, 4, 12, 50]}[kind])
            table[model] = kind + ''.join(rnd.choice('abcdefghijklmnopqrstuvwxyz_-') for _ in range(n - 1))
            while table[model] in [v for k, v in table.items() if k != model]:     # one-letter names can collide
                table[model] = kind + ''.join(rnd.choice('abcdefghijklmnopqrstuvwxyz') for _ in range(max(1, n - 1)))
        return table[model]
    def ref(r, kind):
        return dict(by='id', v=r['v']) if r['by'] == 'id' else dict(by='name', v=name(r['v'], kind))
    out = []
    for op in script:
        op = dict(op)
        kind = {'create_stream': 's', 'update_stream': 's', 'create_topic': 't', 'update_topic': 't', 'create_group': 'g',
                'create_user': 'u', 'update_user': 'u'}.get(op['op'])
        if 'name' in op and kind:
            op['name'] = name(op['name'], kind)
        for k, kd in (('s', 's'), ('t', 't'), ('g', 'g'), ('u', 'u')):
            if k in op:
                op[k] = ref(op[k], kd)
        out.append(op)
    return out


def gen_scripts(family, tier, wd, seed):
    g = GEN[family]
    consts = dict(g['consts']); consts['MaxOps'] = g['gen'][0 if tier == 'quick' else 1]   # TLC also emits the successors of the bound: effective depth + 1
    cfg = os.path.join(wd, f'Gen_{family}.cfg')
    write_cfg(cfg, 'MCSpec', consts, invariants=['EmitScript'], constraint='Bounded')
    t0 = time.time()
    paths = [s for s in tlc_scripts('MC_IggyCatalogue', cfg, wd, workers=4, timeout=900) if len(s) >= 2]
    consts2 = dict(consts); consts2['MaxOps'] = 12 if tier == 'quick' else 20
    cfg2 = os.path.join(wd, f'Sim_{family}.cfg')
    write_cfg(cfg2, 'MCSpec', consts2, invariants=['EmitScript'], constraint='Bounded')
    walks = tlc_scripts('MC_IggyCatalogue', cfg2, wd, workers=1, timeout=600,
                        simulate=(80 if tier == 'quick' else 800, consts2['MaxOps'] + 1), seed=seed)
    log(f'{family}: {len(paths)} path-cover scripts, {len(walks)} walks in {time.time() - t0:.0f}s')
    return paths, walks


REGRESSIONS = [
    # refused creations (id taken, name free / name taken, id free) change nothing - statistics included (seeded change C16_4)
    *[(f'refused-creates-{tr}', tr, [dict(op='create_stream', id=1, name='sa'), dict(op='create_stream', id=1, name='sb'), dict(op='create_stream', id=2, name='sa'),
                                     dict(op='create_topic', s=dict(by='id', v=1), id=2, name='ta', parts=2),
                                     dict(op='create_topic', s=dict(by='id', v=1), id=2, name='tb', parts=3),
                                     dict(op='create_topic', s=dict(by='id', v=1), id=3, name='ta', parts=3),
                                     dict(op='create_group', s=dict(by='id', v=1), t=dict(by='id', v=2), id=1, name='ga'),
                                     dict(op='create_group', s=dict(by='id', v=1), t=dict(by='id', v=2), id=1, name='gb'),
                                     dict(op='create_group', s=dict(by='id', v=1), t=dict(by='id', v=2), id=2, name='ga'),
                                     dict(op='send', s=dict(by='id', v=1), t=dict(by='id', v=2), p=1, k=2),
                                     dict(op='restart')]) for tr in ('tcp', 'http', 'quic')],
    # renames of entities addressed by their (old) NAME, over every transport that carries catalogue scenarios
    *[(f'rename-by-name-{tr}', tr, [dict(op='create_stream', id=0, name='sa'),
                                    dict(op='create_topic', s=dict(by='id', v=1), id=0, name='ta', parts=1),
                                    dict(op='update_topic', s=dict(by='name', v='sa'), t=dict(by='name', v='ta'), name='tb'),
                                    dict(op='update_stream', s=dict(by='name', v='sa'), name='sb'),
                                    dict(op='update_topic', s=dict(by='name', v='sb'), t=dict(by='name', v='tb'), name='ta'),
                                    dict(op='restart'), dict(op='restart')]) for tr in ('tcp', 'http', 'quic')],
    ('D7-auto-explicit-auto', 'tcp', [dict(op='create_stream', id=0, name='sa'), dict(op='create_stream', id=2, name='sb'),
                                      dict(op='create_stream', id=0, name='sc'), dict(op='restart'), dict(op='create_stream', id=0, name='sd'), dict(op='restart')]),
    ('D7-auto-explicit-auto-http', 'http', [dict(op='create_stream', id=0, name='sa'), dict(op='create_stream', id=2, name='sb'),
                                            dict(op='create_stream', id=0, name='sc'), dict(op='restart')]),
    ('D8-user-id-after-restart', 'tcp', [dict(op='create_user', name='alice', active=True), dict(op='create_user', name='bobby', active=True),
                                         dict(op='delete_user', u=dict(by='name', v='bobby')), dict(op='restart'),
                                         dict(op='create_user', name='carol', active=True), dict(op='restart')]),
    ('delete-more-partitions-than-exist', 'tcp', [dict(op='create_stream', id=0, name='sa'),
                                                  dict(op='create_topic', s=dict(by='id', v=1), id=0, name='ta', parts=1),
                                                  dict(op='delete_partitions', s=dict(by='id', v=1), t=dict(by='id', v=1), k=4), dict(op='restart')]),
    ('purge-then-restart', 'tcp', [dict(op='create_stream', id=0, name='sa'),
                                   dict(op='create_topic', s=dict(by='id', v=1), id=0, name='ta', parts=2),
                                   dict(op='send', s=dict(by='id', v=1), t=dict(by='id', v=1), p=1, k=2),
                                   dict(op='purge_topic', s=dict(by='id', v=1), t=dict(by='id', v=1)), dict(op='restart'),
                                   dict(op='send', s=dict(by='id', v=1), t=dict(by='id', v=1), p=2, k=2),
                                   dict(op='purge_stream', s=dict(by='name', v='sa')), dict(op='restart'),
                                   dict(op='send', s=dict(by='id', v=1), t=dict(by='id', v=1), p=1, k=1)]),
    ('D9-two-memberships-delete-stream', 'tcp', [dict(op='create_stream', id=0, name='sa'),
                                                 dict(op='create_topic', s=dict(by='id', v=1), id=0, name='ta', parts=1),
                                                 dict(op='create_group', s=dict(by='id', v=1), t=dict(by='id', v=1), id=0, name='ga'),
                                                 dict(op='create_group', s=dict(by='id', v=1), t=dict(by='id', v=1), id=0, name='gb'),
                                                 dict(op='join', c=1, s=dict(by='id', v=1), t=dict(by='id', v=1), g=dict(by='id', v=1)),
                                                 dict(op='join', c=1, s=dict(by='id', v=1), t=dict(by='id', v=1), g=dict(by='id', v=2)),
                                                 dict(op='join', c=2, s=dict(by='id', v=1), t=dict(by='id', v=1), g=dict(by='id', v=2)),
                                                 dict(op='delete_stream', s=dict(by='id', v=1)), dict(op='create_stream', id=0, name='sb')]),
]


ENCRYPT = False


def build_scenarios(families, tier, wd, seed):
    rnd = random.Random(seed)
    scenarios, stats = [], {}
    n = 0
    for fam in families:
        if fam == 'race':
            # two clients at once, the create's journal entry held back at the guarded schedule point (see cat_lens.rs:run_race)
            for pair in ('topic', 'stream', 'delete_create_topic', 'delete_create_stream'):
                for rep in range(2 if tier == 'quick' else 10):
                    n += 1
                    scenarios.append(dict(id=f'race-{pair}-{n}', family='race', cfg=dict(cache='off', transport='tcp'), seed=rnd.randrange(1 << 30),
                                          steps=[dict(op='race', pair=pair)]))
            stats[fam] = dict(pairs=4)
            continue
        g = GEN[fam]
        paths, walks = gen_scripts(fam, tier, wd, seed)
        budget = {'quick': 150, 'thorough': 3000}[tier]
        if len(paths) > budget:
            paths = rnd.sample(paths, budget)
        stats[fam] = dict(path_cover_scripts=len(paths), simulated_walks=len(walks), transports=g['transports'])
        for s in paths + walks:
            # every script also ends with a restart and one more restart (C05: "followed by one or more restarts")
            tail = [] if s and s[-1]['op'] == 'restart' else [dict(op='restart')]
            for tr in g['transports']:
                if tr == 'http' and rnd.random() < 0.5 and tier == 'quick':
                    continue
                n += 1
                cfg = dict(transport=tr, cache='off', save_threshold=rnd.choice([1, 1000]), encryption=ENCRYPT)
                scenarios.append(dict(id=f'{fam}-{n}', family=fam, cfg=cfg, seed=rnd.randrange(1 << 30),
                                      steps=concretise(s + tail + ([dict(op='restart')] if rnd.random() < 0.2 else []), rnd, tr)))
    for name, tr, steps in REGRESSIONS:
        n += 1
        scenarios.append(dict(id=f'regress-{name}', family='regress', cfg=dict(transport=tr, cache='off', save_threshold=1), seed=7, steps=steps))
    return scenarios, stats


def shard(scenarios, nshards):
    return [scenarios[i::nshards] for i in range(nshards) if scenarios[i::nshards]]


def attribute(prop, scn, events_bad):
    """C05 owns what appears with a restart (not there before it); C06 owns everything else (and panics)."""
    out = []
    steps = scn['steps']
    if prop in ('C19', 'C13'):
        return [(i, ev, lab) for i, (ev, labels) in sorted(events_bad.items()) for lab in labels]
    if prop == 'C08':
        return [(i, ev, lab) for i, (ev, labels) in sorted(events_bad.items()) for lab in labels if lab[0] in ('CAT.members',) or lab[0].startswith('X.')]
    if prop == 'C16':
        return [(i, ev, lab) for i, (ev, labels) in sorted(events_bad.items()) for lab in labels if lab[0] in ('CAT.stats', 'CAT.sizes') or lab[0].startswith('X.')]
    for i, (ev, labels) in sorted(events_bad.items()):
        before = events_bad.get(i - 1, (None, []))[1]
        for lab in labels:
            name = lab[0]
            if name.startswith('X.'):
                # a start-up failure is a restart failing (C05); a panic elsewhere is C06's
                if (ev == 'restart') == (prop == 'C05'):
                    out.append((i, ev, lab))
                continue
            if ev == 'race':
                if prop == 'C05':
                    out.append((i, ev, lab))
                continue
            new = not any(b[0] == name for b in before)
            if ev == 'restart':
                if prop == 'C05' and (new or name.startswith('C05.')):
                    out.append((i, ev, lab))
            elif prop == 'C06' and (new or name.startswith('C06.')):
                out.append((i, ev, lab))
    return out


def nontrivial(prop, scn, evs):
    ops = [s['op'] for s in scn['steps']]
    if ops == ['race']:
        return any(e['ev'] == 'race' and e['acks'] == ['ok', 'ok'] for e in evs)
    creates = [s for s in scn['steps'] if s['op'].startswith('create_') and 'id' in s]
    mixed = any(s['id'] == 0 for s in creates) and any(s['id'] != 0 for s in creates)
    if prop == 'C13':
        return scn['cfg'].get('transport') == 'http' or len(ops) >= 4
    if prop == 'C16':
        return any(o in ops for o in ('send', 'create_topic')) and len(ops) >= 3
    if prop == 'C08':
        return any(o in ops for o in ('join',)) and any(o in ops for o in ('disconnect', 'expire', 'leave', 'delete_topic', 'delete_stream', 'delete_group'))
    if prop == 'C19':
        return 'restart' in ops and any(o.startswith('create_') for o in ops)
    if prop == 'C05':
        return 'restart' in ops and (mixed or any(o.startswith('delete_') for o in ops))
    return any(e['res'] != 'ok' for e in evs) or any(o.startswith('delete_') for o in ops)

RULES = {
    'C05': 'scenario restarts after commands that mix server- and client-chosen ids, or after a delete',
    'C06': 'scenario contains a refused (invalid) command or a delete',
    'C19': 'encrypted journal: creates followed by a restart (the journal is decrypted and replayed)',
    'C13': 'catalogue scenario over HTTP/JSON, or of >= 4 commands over TCP, with seeded boundary-length names',
    'C16': 'catalogue scenario of >= 3 commands with a send or a topic creation (statistics and sizes observed after every step)',
    'C08': 'scenario with a join and a leave / dropped connection / deletion (memberships over several topics)',
}
ASSUMPTIONS = ['server-chosen ids are bound from the response and only required to be free in their scope',
               'names are seeded strings of boundary lengths 1..255, never all digits',
               'an in-process restart: System::shutdown, runtime dropped, process-global id counter reset (hook H2), new System on the same directory']
