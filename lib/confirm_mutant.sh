#!/bin/bash
# confirm_mutant.sh <worktree> <seeded dir>: re-confirms a seeded change in the scratch worktree:
# demo passes on HEAD, fails with the patch; the pinned suite's stable_pass set still passes with the patch.
WT=$1; D=$2; cd $WT || exit 2
rm -f $WT/target/nextest/pb/junit.xml   # cp -al made it a hard link shared with /repo/target: never write through it
git checkout -q -- . && git clean -qfd -e out -e target
DEMO=$(python3 -c "import json;print(json.load(open('$D/meta.json'))['demo_cmd'])")
DEMO=${DEMO#cd $WT && }
git apply $D/demo.diff || { echo "demo.diff does not apply"; exit 2; }
echo "== demo on unchanged tree: $DEMO"
( eval "$DEMO" ) > $D/confirm_demo_unchanged.txt 2>&1; RC1=$?
git apply $D/patch.diff || { echo "patch.diff does not apply"; exit 2; }
echo "== demo with the change"
( eval "$DEMO" ) > $D/confirm_demo_mutant.txt 2>&1; RC2=$?
git checkout -q -- . ; git clean -qfd -e out -e target; git apply $D/patch.diff
echo "== suite with the change"
cargo nextest run --workspace --no-fail-fast --tool-config-file pb:/w/lib/nextest.toml --profile pb --test-threads 8 --offline > $D/confirm_suite.txt 2>&1
python3 - <<PY > $D/confirm_suite_summary.txt
import json, xml.etree.ElementTree as ET
stable=set(json.load(open('/root/.vp/BASELINE.json'))['stable_pass']); passed=set()
for ts in ET.parse('$WT/target/nextest/pb/junit.xml').getroot().iter('testsuite'):
    for tc in ts.iter('testcase'):
        if tc.find('failure') is None and tc.find('error') is None: passed.add(ts.get('name')+'::'+tc.get('name'))
print(f"stable_pass={len(stable)} passed_now={len(passed)} stable_now_failing={len(stable-passed)}", sorted(stable-passed)[:5])
PY
git checkout -q -- . ; git clean -qfd -e out -e target
echo "RESULT $(basename $D): demo_unchanged_rc=$RC1 demo_mutant_rc=$RC2 $(cat $D/confirm_suite_summary.txt)"
rm -f $D/confirm_suite.txt
