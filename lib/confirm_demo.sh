#!/bin/bash
# confirm_demo.sh <worktree> <seeded dir>: only the demonstration part of confirm_mutant.sh
WT=$1; D=$2; cd $WT || exit 2
git checkout -q -- . && git clean -qfd -e out -e target
DEMO=$(python3 -c "import json;print(json.load(open('$D/meta.json'))['demo_cmd'])")
DEMO=${DEMO#cd $WT && }
git apply $D/demo.diff || { echo "demo.diff does not apply"; exit 2; }
( eval "$DEMO" ) > $D/confirm_demo_unchanged.txt 2>&1; RC1=$?
git apply $D/patch.diff || { echo "patch.diff does not apply"; exit 2; }
( eval "$DEMO" ) > $D/confirm_demo_mutant.txt 2>&1; RC2=$?
git checkout -q -- . ; git clean -qfd -e out -e target
echo "RESULT $(basename $D): demo_unchanged_rc=$RC1 demo_mutant_rc=$RC2"
