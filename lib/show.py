#!/usr/bin/env python3
"""Pretty-print a log-lens trace: show.py trace.ndjson [sc]"""
import json, sys
for l in open(sys.argv[1]):
    e = json.loads(l)
    if len(sys.argv) > 2 and str(e.get('sc')) != sys.argv[2]:
        continue
    if e['ev'] == 'reset':
        print('RESET', e['id'], {k: v for k, v in e['cfg'].items() if k in ('save_threshold', 'segment_bytes', 'cache', 'cache_indexes', 'fsync', 'dedup', 'confirmation')}); continue
    print(f"#{e['i']} {e['ev']} res={e['res']}", {k: e[k] for k in e if k in ('p', 'batch', 'who', 'o', 'n', 'auto', 'r', 'mode', 'by', 'e', 'fatal')})
    for p, (post, o) in enumerate(zip(e.get('post', []), e.get('obs', [])), 1):
        print(f"   p{p} segs={[(s['start'], s['cur'], 'C' if s['closed'] else 'o', s['unsaved'], s['bytes']) for s in post['segs']]} cache_lo={post['cache_lo']} cur={o['cur']} count={o['count']} stored={o['stored']} errs={o['errs']}")
        print(f"      read={[x[0] if x[1] > 0 else x for x in o['read']]}")
        badp = [(q[0], q[1], [x[0] for x in q[2]]) for q in o['polls'] if [x[0] for x in q[2]] != list(range(q[0], min(q[0] + q[1], o['cur'] + 1))) ]
        if badp: print(f"      odd polls={badp[:8]}")
