"""Shared machinery of the /verif checks: building the harness, running TLC (model checking, script
generation, trace validation), known findings, evidence, verdicts.

Exit codes of a check: 0 held (possibly with KNOWN-FINDING lines), 1 + `VIOLATION property=<id> replay=<path>`,
2 tool error / timeout (never prints VIOLATION)."""
import fcntl, hashlib, json, os, random, re, shutil, subprocess, sys, time

VERIF = os.path.dirname(os.path.dirname(os.path.abspath(__file__)))
REPO = os.environ.get('VERIF_REPO', '/repo')
SPECS = os.path.join(VERIF, 'specs')
# the overrides exist only for lib/mutant_eval.py (self-test against seeded changes in a scratch copy); registered checks never set them
HARNESS = os.environ.get('VERIF_HARNESS', os.path.join(VERIF, 'harness'))
_OUT = os.environ.get('VERIF_OUT', VERIF)
WORK = os.path.join(_OUT, 'work')
EVIDENCE = os.path.join(_OUT, 'evidence')
REPLAYS = os.path.join(_OUT, 'replays')
BIN = os.path.join(HARNESS, 'target', 'debug', 'iggy-verif')
NCPU = os.cpu_count() or 8


class ToolError(Exception):
    pass


def log(*a):
    print('[check]', *a, file=sys.stderr, flush=True)


def seed_from_env(default=20260925):
    try:
        return int(os.environ.get('VERIF_SEED', default))
    except ValueError:
        return default


def run(cmd, timeout=None, cwd=None, env=None, stdin=None):
    e = dict(os.environ)
    if env:
        e.update(env)
    try:
        p = subprocess.run(cmd, cwd=cwd, env=e, timeout=timeout, stdout=subprocess.PIPE, stderr=subprocess.STDOUT,
                           input=stdin, text=True, errors='replace')
    except subprocess.TimeoutExpired as ex:
        raise ToolError(f"timeout after {timeout}s: {' '.join(cmd)[:200]}") from ex
    return p.returncode, p.stdout


def build_harness():
    """Rebuilds the harness against /repo's current working tree (cargo decides what is stale)."""
    os.makedirs(WORK, exist_ok=True)
    lock = open(os.path.join(WORK, '.cargo.lock'), 'w')
    fcntl.flock(lock, fcntl.LOCK_EX)
    try:
        src = os.path.join(REPO, 'Cargo.lock')
        dst = os.path.join(HARNESS, 'Cargo.lock')
        if not os.path.exists(dst) or os.path.getmtime(src) > os.path.getmtime(dst):
            shutil.copy(src, dst)
        t0 = time.time()
        rc, out = run(['cargo', 'build', '--offline'], cwd=HARNESS, timeout=3600,
                      env={'CARGO_NET_OFFLINE': 'true'})
        if rc != 0:
            sys.stderr.write(out[-6000:])
            raise ToolError('harness build failed')
        log(f'harness built in {time.time() - t0:.1f}s')
    finally:
        fcntl.flock(lock, fcntl.LOCK_UN)
        lock.close()
    return BIN


def workdir(name):
    d = os.path.join(WORK, name)
    shutil.rmtree(d, ignore_errors=True)
    os.makedirs(d)
    return d


# ----------------------------------------------------------------------------------------------- TLC

def _tlc(args, timeout, env=None, cwd=SPECS):
    e = {'JAVA_TOOL_OPTIONS': '-Xss1g'}
    if env:
        e.update(env)
    rc, out = run(['tlc'] + args, timeout=timeout, cwd=cwd, env=e)
    return rc, out


def write_cfg(path, spec, constants, invariants=(), properties=(), constraint=None, view=None, postcondition=None):
    lines = [f'SPECIFICATION {spec}']
    if constants:
        lines.append('CONSTANTS')
        for k, v in constants.items():
            lines.append(f'    {k} = {v}')
    if view:
        lines.append(f'VIEW {view}')
    lines.append('CHECK_DEADLOCK FALSE')
    if constraint:
        lines.append(f'CONSTRAINT {constraint}')
    if invariants:
        lines.append('INVARIANTS ' + ' '.join(invariants))
    if properties:
        lines.append('PROPERTIES ' + ' '.join(properties))
    if postcondition:
        lines.append(f'POSTCONDITION {postcondition}')
    with open(path, 'w') as f:
        f.write('\n'.join(lines) + '\n')


def tlc_mc(module, cfg_path, wd, workers=8, timeout=900):
    """Exhaustive model checking. Returns dict(states, distinct, ok, actions={name: (distinct, total)}, out)."""
    rc, out = _tlc(['-workers', str(workers), '-coverage', '1', '-metadir', os.path.join(wd, 'tlc_meta'), '-cleanup',
                    '-noGenerateSpecTE', '-config', cfg_path, os.path.join(SPECS, module + '.tla')], timeout)
    m = re.search(r'(\d+) states generated, (\d+) distinct states found, (\d+) states left', out)
    if not m:
        sys.stderr.write(out[-4000:])
        raise ToolError(f'TLC produced no state count for {module} {cfg_path}')
    ok = 'No error has been found' in out and int(m.group(3)) == 0
    violated = re.findall(r'(?:Invariant|Temporal property|Action property) (\S+) (?:is|was) violated', out)
    if 'Temporal properties were violated' in out:
        violated.append('temporal')
    actions = {}
    # last coverage report: lines like "<MCSend line 77, col 1 to line 77, col 6 of module MC_IggyLog>: 12:340"
    for name, d, t in re.findall(r'^<(\w+) line \d+, col \d+ to line \d+, col \d+ of module \w+>: (\d+):(\d+)', out, re.M):
        actions[name] = (int(d), int(t))
    return dict(states=int(m.group(1)), distinct=int(m.group(2)), ok=ok, violated=violated, actions=actions, out=out,
                rc=rc)


def tlc_scripts(module, cfg_path, wd, workers=4, timeout=600, simulate=None, seed=1):
    """Runs a Gen config; returns the list of scripts (each a list of op dicts) printed by EmitScript."""
    args = ['-workers', str(workers), '-metadir', os.path.join(wd, 'tlc_meta'), '-cleanup', '-noGenerateSpecTE']
    if simulate:
        num, depth = simulate
        args += ['-simulate', f'num={num}', '-depth', str(depth), '-seed', str(seed)]
        args[1] = '1'
    args += ['-config', cfg_path, os.path.join(SPECS, module + '.tla')]
    rc, out = _tlc(args, timeout)
    scripts = []
    for line in out.splitlines():
        if line.startswith('<<"SCRIPT", '):
            s = line[len('<<"SCRIPT", '):]
            s = s[:s.rindex('>>')].strip()
            try:
                scripts.append(json.loads(json.loads(s)))
            except Exception:
                pass
    if not scripts:
        sys.stderr.write(out[-3000:])
        raise ToolError(f'no scripts generated by {module} {cfg_path}')
    if simulate:
        # a walk prints every prefix: keep the maximal scripts only
        ser = [tuple(json.dumps(o, sort_keys=True) for o in s) for s in scripts]
        prefixes = set()
        for t in ser:
            for k in range(1, len(t)):
                prefixes.add(t[:k])
        seen = set()
        keep = []
        for s, t in zip(scripts, ser):
            if t in prefixes or t in seen:
                continue
            seen.add(t)
            keep.append(s)
        # TLC prints every successor it generates (siblings of the walk too): keep the longest scripts, about 2 per walk
        keep.sort(key=len, reverse=True)
        scripts = keep[:2 * simulate[0]]
    return scripts


def tlc_trace(trace_module, trace_path, wd, timeout=1800, heap='3g'):
    """Validates one ndjson trace. Returns (bad, consumed) where bad = list of dict(line, sc, i, labels)."""
    rc, out = _tlc(['-workers', '1', '-metadir', os.path.join(wd, 'tlc_meta'), '-cleanup', '-noGenerateSpecTE',
                    '-config', os.path.join(SPECS, trace_module + '.cfg'), os.path.join(SPECS, trace_module + '.tla')],
                   timeout, env={'TRACE': trace_path,
                                 'JAVA_TOOL_OPTIONS': f'-Xss1g -Xmx{heap} -Dtlc2.tool.queue.IStateQueue=StateDeque'})
    bad = []
    consumed = None
    for line in out.splitlines():
        if line.startswith('"BAD '):
            try:
                bad.append(json.loads(json.loads(line)[4:]))
            except Exception as ex:
                raise ToolError(f'cannot parse TLC BAD line: {line[:300]} ({ex})')
        m = re.match(r'<<"CONSUMED", (\d+)>>', line)
        if m:
            consumed = int(m.group(1))
    if consumed is None:
        sys.stderr.write(out[-5000:])
        raise ToolError(f'trace not consumed by {trace_module}: {trace_path}')
    return bad, consumed


# ----------------------------------------------------------------------------------------------- harness

def run_harness_shards(lens, shards, wd, timeout=3000):
    """shards: list of lists of scenario dicts. Runs one harness process per shard in parallel.
    Returns list of (trace_path, summary dict)."""
    binp = BIN
    procs = []
    for k, scns in enumerate(shards):
        inp = os.path.join(wd, f'scn_{k}.jsonl')
        with open(inp, 'w') as f:
            for s in scns:
                f.write(json.dumps(s) + '\n')
        outp = os.path.join(wd, f'trace_{k}.ndjson')
        errp = open(os.path.join(wd, f'harness_{k}.err'), 'w')
        p = subprocess.Popen([binp, lens, '--in', inp, '--out', outp, '--work', os.path.join(wd, f'data_{k}')],
                             stdout=subprocess.PIPE, stderr=errp, text=True)
        procs.append((p, outp, errp, k))
    res = []
    deadline = time.time() + timeout
    for p, outp, errp, k in procs:
        try:
            out, _ = p.communicate(timeout=max(1, deadline - time.time()))
        except subprocess.TimeoutExpired:
            for q, *_ in procs:
                q.kill()
            raise ToolError('harness timeout')
        errp.close()
        try:
            summ = json.loads(out.strip().splitlines()[-1])
            if p.returncode == 3 and 'hang' in summ:
                # the code under test hung (watchdog): the scenarios finished before are in the trace; the hanging one is data
                n = sum(1 for _ in open(outp)) if os.path.exists(outp) else 0
                res.append((outp, dict(lines=n, hang=summ['hang'], tool_errors=[])))
                continue
        except Exception:
            tail = open(os.path.join(wd, f'harness_{k}.err')).read()[-3000:]
            raise ToolError(f'harness shard {k} died (rc={p.returncode}): {tail}')
        if summ.get('tool_errors'):
            raise ToolError(f'harness tool errors: {summ["tool_errors"][:3]}')
        res.append((outp, summ))
    return res


def parallel_trace_validation(trace_module, traces, wd, max_par=8):
    """Validates traces in parallel TLC processes. Returns list of (bad, consumed) in the order of `traces`."""
    import concurrent.futures as cf
    out = [None] * len(traces)
    with cf.ThreadPoolExecutor(max_workers=max_par) as ex:
        futs = {ex.submit(tlc_trace, trace_module, t, os.path.join(wd, f'tv_{i}')): i for i, t in enumerate(traces)}
        for f in cf.as_completed(futs):
            out[futs[f]] = f.result()
    return out


# ----------------------------------------------------------------------------------------------- findings / evidence

def load_known_findings():
    p = os.path.join(VERIF, 'known-findings.json')
    if not os.path.exists(p):
        return []
    return json.load(open(p))


def match_known(prop, viol, findings):
    """viol: dict(label, ev, cfg, scenario, step...). A finding matches on its `match` dict: every key must equal
    (label = first element of the label tuple; cfg.* keys compare scenario config fields)."""
    for f in findings:
        if f.get('status') != 'open' or f.get('property') != prop:
            continue
        ok = True
        for k, v in f.get('match', {}).items():
            if k == 'label':
                ok = ok and viol['label'][0] == v
            elif k.startswith('cfg.'):
                ok = ok and viol.get('cfg', {}).get(k[4:]) == v
            elif k == 'label_args':
                ok = ok and list(viol['label'][1:1 + len(v)]) == list(v)
            elif k == 'when':
                # a python expression over the label tuple, the event name and the scenario configuration
                try:
                    ok = ok and bool(eval(v, {'__builtins__': {}}, dict(label=viol['label'], ev=viol.get('ev'), cfg=viol.get('cfg', {}))))
                except Exception:
                    ok = False
            else:
                ok = ok and viol.get(k) == v
        if ok:
            return f
    return None


def write_evidence(prop, tier, seed, level, coverage, wall_s, violations, assumptions):
    os.makedirs(EVIDENCE, exist_ok=True)
    ev = dict(property_id=prop, tier=tier, seed=seed, level=level, coverage=coverage, assumptions=assumptions,
              wall_s=round(wall_s, 2), violations=violations)
    tmp = os.path.join(EVIDENCE, f'.{prop}.json.tmp')
    with open(tmp, 'w') as f:
        json.dump(ev, f, indent=1, default=str)
    os.replace(tmp, os.path.join(EVIDENCE, f'{prop}.json'))


def write_replay(prop, n, payload):
    os.makedirs(REPLAYS, exist_ok=True)
    p = os.path.join(REPLAYS, f'{prop}-{n}.json')
    with open(p, 'w') as f:
        json.dump(payload, f, indent=1)
    return p


def finish(prop, violations, findings_hit):
    """Prints the verdict lines and returns the exit code."""
    for f, what in findings_hit:
        print(f'KNOWN-FINDING: property={prop} {f["key"]}: {f["what"]} [{what}]')
    if violations:
        for path in violations[:20]:
            print(f'VIOLATION property={prop} replay={path}')
        return 1
    return 0
