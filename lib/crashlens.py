"""Crash lens (specs/IggyCrash.tla, Trace_IggyCrash.tla; harness lens `crash`). Serves C04 (fault enumeration)."""
import json, os, random, time
from common import *

LENS = 'crash'
TRACE_MODULE = 'Trace_IggyCrash'
FAMILIES = {'C04': ['crash'], 'C03': ['graceful']}
MSG = 61


def mc_family(family, tier, wd):
    cfg = os.path.join(wd, 'MC_crash.cfg')
    consts = dict(MaxBatches=4 if tier == 'quick' else 7)
    write_cfg(cfg, 'Spec', consts, invariants=['RecoverIsPrefix', 'IndexBehindLog'])
    r = tlc_mc('IggyCrash', cfg, wd, workers=2, timeout=600)
    r['consts'] = consts
    return r


GRACEFUL_REGRESSIONS = [
    # D24b: the batch persisted by the shutdown fills its segment (the payload lengths derive from the seed: kept with the workload)
    ('D24b-last-batch-fills-segment', 808890003, {'save_threshold': 2, 'segment_bytes': 305, 'cache': 'off', 'confirmation': 'no_wait', 'fsync': False},
     [{'op': 'append', 'k': 1}, {'op': 'append', 'k': 3}, {'op': 'store', 'o': 3}, {'op': 'store', 'o': 1}, {'op': 'append', 'k': 3}, {'op': 'append', 'k': 3}, {'op': 'store', 'o': 6}, {'op': 'create_topic'}, {'op': 'append', 'k': 1}, {'op': 'store', 'o': 6}, {'op': 'flush'}, {'op': 'create_partitions'}, {'op': 'flush'}, {'op': 'append', 'k': 3}, {'op': 'flush'}, {'op': 'append', 'k': 1}]),
]


def workload(rnd, n):
    steps = []
    sent = 0
    for _ in range(n):
        x = rnd.random()
        if x < 0.55:
            k = rnd.choice([1, 1, 2, 3]); steps.append(dict(op='append', k=k)); sent += k
        elif x < 0.7:
            steps.append(dict(op='flush'))
        elif x < 0.85 and sent:
            steps.append(dict(op='store', o=rnd.randrange(sent)))
        elif x < 0.93:
            steps.append(dict(op='create_topic'))
        else:
            steps.append(dict(op='create_partitions'))
    return steps


def build_scenarios(families, tier, wd, seed):
    rnd = random.Random(seed)
    scenarios = []
    n = 0
    for conf in ('wait', 'no_wait'):
        for fsync in (False, True):
            for thr, seg in ((1, 0), (2, 5 * MSG), (3, 3 * MSG), (1000, 4 * MSG), (1, 2 * MSG)):
                for rep in range(1 if tier == 'quick' else 6):
                    n += 1
                    scenarios.append(dict(id=f'crash-{n}', family='crash', seed=rnd.randrange(1 << 30), stride=1,
                                          cfg=dict(save_threshold=thr, segment_bytes=seg, cache='off', confirmation=conf, fsync=fsync),
                                          steps=workload(rnd, 9 if tier == 'quick' else 16)))
    if 'graceful' in families:
        # C03: only the image left by the graceful shutdown that ends the workload is recovered - everything accepted must be there
        scenarios = []
        for conf in ('no_wait', 'wait'):
            for fsync in (False, True):
                for thr, seg in ((1, 0), (2, 5 * MSG), (3, 3 * MSG), (1000, 4 * MSG), (1, 2 * MSG), (1000, 0)):
                    for rep in range(2 if tier == 'quick' else 12):
                        n += 1
                        scenarios.append(dict(id=f'graceful-{n}', family='graceful', seed=rnd.randrange(1 << 30), graceful_only=True,
                                              cfg=dict(save_threshold=thr, segment_bytes=seg, cache='off', confirmation=conf, fsync=fsync),
                                              steps=workload(rnd, rnd.choice([3, 6, 9]) if tier == 'quick' else 16)))
        # regression workloads (findings pinned in the quick tier)
        for name, seed_, cfg, steps in GRACEFUL_REGRESSIONS:
            n += 1
            scenarios.append(dict(id=f'graceful-regress-{name}', family='graceful', seed=seed_, graceful_only=True, cfg=cfg, steps=steps))
        return scenarios, {'graceful': dict(workloads=len(scenarios))}
    return scenarios, {'crash': dict(workloads=len(scenarios))}


def shard(scenarios, nshards):
    return [scenarios[i::nshards] for i in range(nshards) if scenarios[i::nshards]]


def attribute(prop, scn, events_bad):
    return [(i, ev, lab) for i, (ev, labels) in sorted(events_bad.items()) for lab in labels if lab[0].startswith((prop + '.', 'X.'))]


def nontrivial(prop, scn, evs):
    if prop == 'C03':
        return any(e['ev'] == 'crash' and e['at'] == 'graceful' and e['start'] == 'ok' and len(e.get('sent', [])) > 0 for e in evs)
    # crash images whose recovery differs from the final state: some image recovered fewer messages than were sent in the end
    tot = max((len(e['sent']) for e in evs if e['ev'] == 'crash'), default=0)
    return any(e['ev'] == 'crash' and e['start'] == 'ok' and e.get('topic') and len(e.get('read', [])) < tot for e in evs)

RULES = {'C03': 'workloads that accepted at least one message before the graceful shutdown', 'C04': 'workloads with at least one crash image that recovers to a strictly shorter log than the final one'}
ASSUMPTIONS = ['process-death model: what reached the file survives (power loss and reordering of writes in the page cache are out of scope)',
               'crash points: after every log append, index append, consumer-offset write, state-log append and segment creation reported by the guarded file-mutation hook; torn variants of the last write: cut by 1 byte, to half / 1 byte / 0 bytes of its growth',
               '"write completed under wait-confirmation" = the messages the live partition reported as saved after the last call that had returned',
               'a torn trailing STATE-log entry may be answered by refusing to start (C11 requires a cut tail to be an error); one producer, one partition: accepted order = send order']
