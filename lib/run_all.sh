#!/bin/bash
# run_all.sh <tier> [props...]: runs the checks one after the other, prints one line per check (exit code, wall time)
TIER=${1:-quick}; shift
PROPS=${@:-C01 C02 C03 C04 C05 C06 C07 C08 C09 C10 C11 C12 C13 C14 C15 C16 C17 C18 C19 C20}
cd "$(dirname "$0")/.."
for c in $PROPS; do
  t0=$(date +%s)
  ./check $c --tier $TIER > work_run_$c.log 2>&1; rc=$?
  echo "$c tier=$TIER exit=$rc wall=$(( $(date +%s) - t0 ))s $(grep -m1 -E '^(VIOLATION|TOOL-ERROR)' work_run_$c.log | cut -c1-200)"
done
