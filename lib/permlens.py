"""Permission lens (specs/IggyPerm.tla, MC_IggyPerm.tla, Trace_IggyPerm.tla; harness lens `perm`). Serves C09."""
import json, os, random, time
from common import *

LENS = 'perm'
TRACE_MODULE = 'Trace_IggyPerm'
FAMILIES = {'C09': ['permissions']}
GF = ["manage_servers", "read_servers", "manage_users", "read_users", "manage_streams", "read_streams", "manage_topics", "read_topics",
      "poll_messages", "send_messages"]
SF = ["manage_stream", "read_stream", "manage_topics", "read_topics", "poll_messages", "send_messages"]
TF = ["manage_topic", "read_topic", "poll_messages", "send_messages"]


def mc_family(family, tier, wd):
    cfg = os.path.join(wd, 'MC_perm.cfg')
    with open(cfg, 'w') as f:
        f.write('SPECIFICATION Spec\nINVARIANT Inv\nCHECK_DEADLOCK FALSE\n')
    t0 = time.time()
    r = tlc_mc('MC_IggyPerm', cfg, wd, workers=2, timeout=900)
    log(f'perm: hierarchy (MonotoneStep, RootAll, NothingFromNothing over all flag sets) checked in {time.time() - t0:.0f}s')
    r['consts'] = dict(note='the hierarchy is a pure function: its properties are evaluated as an invariant of a one-state model over all flag sets')
    return r


def rand_record(rnd):
    sk = rnd.choice(['none', 'target', 'target', 'other'])
    tk = rnd.choice(['none', 'empty', 'target', 'target', 'other']) if sk != 'none' else 'none'
    if sk == 'target' and rnd.random() < 0.4:
        sk = 'both'
    return dict(os=rnd.sample(SF, rnd.choice([1, 2, 6])) if sk == 'both' else [], ot=rnd.sample(TF, rnd.choice([0, 1, 4])) if sk == 'both' else [],
                g=rnd.sample(GF, rnd.choice([0, 0, 1, 1, 2, 3])), sk=sk, s=rnd.sample(SF, rnd.choice([0, 1, 1, 2])) if sk != 'none' else [],
                tk=tk, t=rnd.sample(TF, rnd.choice([0, 1, 1, 2])) if tk in ('target', 'other') else [])


def build_scenarios(families, tier, wd, seed):
    rnd = random.Random(seed)
    scenarios = []
    nsh = 10 if tier == 'quick' else 40
    for k in range(nsh):
        scenarios.append(dict(id=f'table-{k}', family='table', kind='table', level=tier, shard=k, shards=nsh, seed=rnd.randrange(1 << 30),
                              steps=[1, 2, 3], cfg=dict(cache='off')))
    scenarios.append(dict(id='unauth-1', family='unauth', kind='unauth', seed=1, steps=[1, 2, 3], cfg=dict(cache='off')))
    nops = 8 if tier == 'quick' else 60
    for k in range(nops):
        recs = [rand_record(rnd) for _ in range(12)]
        if k == 0:
            # each single flag alone, and the corner records of the findings
            recs = [dict(g=[f], sk='none', s=[], tk='none', t=[]) for f in GF] + \
                   [dict(g=[], sk='target', s=[f], tk='none', t=[]) for f in SF] + \
                   [dict(g=[], sk='target', s=[], tk='target', t=[f]) for f in TF] + \
                   [dict(g=[], sk='target', s=[], tk='empty', t=[]), dict(g=[], sk='other', s=SF, tk='other', t=TF)] + \
                   [dict(g=[], sk='both', s=['read_stream'], tk='none', t=[], os=SF, ot=TF),
                    dict(g=[], sk='both', s=['read_stream', 'read_topics'], tk='target', t=['read_topic'], os=SF, ot=TF),
                    dict(g=['read_streams', 'read_topics'], sk='other', s=SF, tk='other', t=TF)]
        scenarios.append(dict(id=f'ops-{k}', family='ops', kind='ops', records=recs, seed=rnd.randrange(1 << 30), steps=[1, 2, 3], cfg=dict(cache='off')))
    return scenarios, {'permissions': dict(table_shards=nsh, op_binding_scenarios=nops)}


def shard(scenarios, nshards):
    return [scenarios[i::nshards] for i in range(nshards) if scenarios[i::nshards]]


def attribute(prop, scn, events_bad):
    return [(i, ev, lab) for i, (ev, labels) in sorted(events_bad.items()) for lab in labels]


def nontrivial(prop, scn, evs):
    if scn['kind'] == 'table':
        return any(e['ev'] == 'rule' and e['rec']['sk'] == 'both' for e in evs)
    if scn['kind'] == 'ops':
        return any(e['ev'] == 'op' and e['res'] == 'ok' and e['op'] not in ('ping', 'get_me', 'get_personal_access_tokens') for e in evs)
    return any(e['ev'] == 'unauth' and e['res'] != 'ok' for e in evs)

RULES = {'C09': 'decision-table shards containing records with a per-stream record; op-binding scenarios in which a permissioned operation was performed; '
                'unauthenticated sweeps in which requests were refused by the SERVER (client-side state forced to authenticated)'}
ASSUMPTIONS = ['Granted is the LARGEST reading of the documented hierarchy: the check is "performed only if granted" (no escalation), completeness is not demanded',
               'decision table: global in {none, singles, pairs of the six stream/topic flags, all, all-but-one} x stream record {none, target, other} x flag sets x topic table {absent, empty, target, other}; thorough = all 2^6 x 2^4 flag sets',
               'a get answered "no such entity" counts as not performed; "closed" in the unauthenticated sweep is the SDK dropping the connection after the server answered unauthenticated']
