#!/usr/bin/env python3
"""Generates harness/src/rec_client.rs: a `Client` that delegates every call to an inner TcpClient and records the three
calls the SDK's high-level producer / consumer make on the wire (send_messages, poll_messages, store_consumer_offset)."""
import re, sys
src = open('/repo/sdk/src/client.rs').read()
src = '\n'.join(l for l in src.splitlines() if not l.strip().startswith('///') and not l.strip().startswith('//'))
traits = re.findall(r'pub trait (\w+)[^{]*\{(.*?)\n\}', src, re.S)
MANUAL = {'send_messages', 'poll_messages', 'store_consumer_offset'}
out = []
for name, body in traits:
    if name in ('Client',):
        continue
    sigs = re.findall(r'async fn (\w+)\s*\((.*?)\)\s*(->\s*[^;]+)?;', body, re.S)
    if not sigs:
        continue
    out.append(f'#[async_trait]\nimpl {name} for RecClient {{')
    for fn, args, ret in sigs:
        args = ' '.join(args.split())
        ret = ' '.join((ret or '').split())
        if fn in MANUAL:
            continue
        params = [a.strip() for a in args.split(',') if a.strip() and a.strip() != '&self']
        # split on commas not inside <>
        plist, depth, cur = [], 0, ''
        for ch in args:
            if ch in '<(':
                depth += 1
            if ch in '>)':
                depth -= 1
            if ch == ',' and depth == 0:
                plist.append(cur.strip()); cur = ''
            else:
                cur += ch
        if cur.strip():
            plist.append(cur.strip())
        names = [p.split(':')[0].strip() for p in plist if p != '&self']
        out.append(f'    async fn {fn}({", ".join(plist)}) {ret} {{\n        self.inner.{fn}({", ".join(names)}).await\n    }}')
    out.append('    // MANUAL:' + name)
    out.append('}\n')
gen = '\n'.join(out)
manual = {
'MessageClient': '''    async fn poll_messages(&self, stream_id: &Identifier, topic_id: &Identifier, partition_id: Option<u32>, consumer: &Consumer,
        strategy: &PollingStrategy, count: u32, auto_commit: bool) -> Result<PolledMessages, IggyError> {
        while self.pause.load(std::sync::atomic::Ordering::SeqCst) {
            self.parked.store(true, std::sync::atomic::Ordering::SeqCst);
            self.resume.notified().await;
        }
        self.parked.store(false, std::sync::atomic::Ordering::SeqCst);
        let r = self.inner.poll_messages(stream_id, topic_id, partition_id, consumer, strategy, count, auto_commit).await;
        let (res, p, offs, cur) = match &r {
            Ok(pm) => ("ok".to_string(), pm.partition_id, pm.messages.iter().map(|m| m.offset).collect::<Vec<_>>(), pm.current_offset),
            Err(e) => (format!("err:{}", e.as_string()), 0, vec![], 0),
        };
        self.polls_since_yield.fetch_add(1, std::sync::atomic::Ordering::SeqCst);
        self.emit(json!({"ev":"wire_poll","stream":stream_id.to_string(),"topic":topic_id.to_string(),"partition":partition_id.unwrap_or(0),
            "consumer":consumer.id.to_string(),"group":consumer.kind == ConsumerKind::ConsumerGroup,
            "kind":strategy.kind.to_string(),"value":strategy.value,"count":count,"auto_commit":auto_commit,
            "res":res,"p":p,"offs":offs,"cur":cur}));
        r
    }
    async fn send_messages(&self, stream_id: &Identifier, topic_id: &Identifier, partitioning: &Partitioning, messages: &mut [Message]) -> Result<(), IggyError> {
        let ms: Vec<i64> = messages.iter().map(|m| {
            let v = crate::sdk_lens::parse_m(&m.payload);
            match (&self.decrypt, v < 0) {
                (Some(enc), true) => enc.decrypt(&m.payload).map(|p| crate::sdk_lens::parse_m(&p)).unwrap_or(-1),
                _ => v,
            }
        }).collect();
        let _guard = InFlight::new(&self.inflight);
        let r = self.inner.send_messages(stream_id, topic_id, partitioning, messages).await;
        drop(_guard);
        self.emit(json!({"ev":"wire_send","stream":stream_id.to_string(),"topic":topic_id.to_string(),
            "pkind":partitioning.kind.to_string(),
            "ppart": if partitioning.kind == PartitioningKind::PartitionId && partitioning.value.len() >= 4 { u32::from_le_bytes(partitioning.value[..4].try_into().unwrap()) } else { 0 },
            "pkey": if partitioning.kind == PartitioningKind::MessagesKey { String::from_utf8_lossy(&partitioning.value).to_string() } else { String::new() },
            "ms":ms,"res":crate::util::res_of(&r)}));
        r
    }
''',
'ConsumerOffsetClient': '''    async fn store_consumer_offset(&self, consumer: &Consumer, stream_id: &Identifier, topic_id: &Identifier, partition_id: Option<u32>, offset: u64) -> Result<(), IggyError> {
        let mut _guard = InFlight::new(&self.inflight);
        // if this future is dropped in mid-request (the consumer dropped while committing) the server may or may not have applied it
        _guard.lost = Some((self.events.clone(), json!({"ev":"wire_store_lost","partition":partition_id.unwrap_or(0),"offset":offset,"by":self.tag,"inc":self.inc})));
        let r = self.inner.store_consumer_offset(consumer, stream_id, topic_id, partition_id, offset).await;
        _guard.lost = None;
        drop(_guard);
        self.emit(json!({"ev":"wire_store","stream":stream_id.to_string(),"topic":topic_id.to_string(),"partition":partition_id.unwrap_or(0),
            "consumer":consumer.id.to_string(),"group":consumer.kind == ConsumerKind::ConsumerGroup,"offset":offset,"res":crate::util::res_of(&r)}));
        r
    }
''',
}
for k, v in manual.items():
    gen = gen.replace('    // MANUAL:' + k, v)
gen = re.sub(r'    // MANUAL:\w+\n', '', gen)
uses = re.findall(r'^use crate::[^;]+;', src, re.M)
head = '''//! GENERATED by lib/gen_rec_client.py - do not edit. A `Client` that delegates to a TcpClient and records what the SDK's
//! high-level producer and consumer put on the wire (the linearization points of specs/IggySdk.tla).
#![allow(unused_imports)]
use async_broadcast::Receiver;
use async_trait::async_trait;
use iggy::client::*;
use iggy::consumer::ConsumerKind;
use iggy::messages::send_messages::PartitioningKind;
use iggy::tcp::client::TcpClient;
use serde_json::{json, Value};
use std::sync::atomic::AtomicU64;
use std::sync::{Arc, Mutex};
''' + '\n'.join(u.replace('use crate::', 'use iggy::') for u in uses if 'tcp::config' not in u) + '''

#[derive(Debug)]
pub struct RecClient {
    pub inner: TcpClient,
    pub events: Arc<Mutex<Vec<Value>>>,
    pub polls_since_yield: Arc<AtomicU64>,
    pub tag: String,
    /// pause gate: a poll that finds `pause` set parks BEFORE issuing its request (no request in flight, no client lock held),
    /// says so in `parked`, and goes on when `pause` is cleared and `resume` notified - so that the harness can leave a consumer's
    /// future suspended between the steps of a scenario without blocking the consumer's background tasks on the client's lock
    pub pause: Arc<std::sync::atomic::AtomicBool>,
    pub parked: Arc<std::sync::atomic::AtomicBool>,
    pub resume: Arc<tokio::sync::Notify>,
    /// recorded state-changing requests (send / store) that have been issued and not answered yet, over all recording clients
    pub inflight: Arc<AtomicU64>,
    /// incarnation number of the consumer object this client belongs to (0: not a consumer)
    pub inc: u64,
    /// client-side encryption in use: the message numbers are read from the decrypted payload
    pub decrypt: Option<Arc<iggy::utils::crypto::EncryptorKind>>,
}

/// counts a request as in flight until it is answered - or until its future is dropped (a consumer dropped in mid-request)
struct InFlight {
    counter: Arc<AtomicU64>,
    lost: Option<(Arc<Mutex<Vec<Value>>>, Value)>,
}
impl InFlight {
    fn new(c: &Arc<AtomicU64>) -> Self {
        c.fetch_add(1, std::sync::atomic::Ordering::SeqCst);
        InFlight { counter: c.clone(), lost: None }
    }
}
impl Drop for InFlight {
    fn drop(&mut self) {
        if let Some((events, ev)) = self.lost.take() {
            events.lock().unwrap().push(ev);
        }
        self.counter.fetch_sub(1, std::sync::atomic::Ordering::SeqCst);
    }
}

impl RecClient {
    pub fn emit(&self, mut v: Value) {
        v["by"] = json!(self.tag);
        v["inc"] = json!(self.inc);
        self.events.lock().unwrap().push(v);
    }
}

#[async_trait]
impl Client for RecClient {
    async fn connect(&self) -> Result<(), IggyError> {
        self.inner.connect().await
    }
    async fn disconnect(&self) -> Result<(), IggyError> {
        self.inner.disconnect().await
    }
    async fn shutdown(&self) -> Result<(), IggyError> {
        self.inner.shutdown().await
    }
    async fn subscribe_events(&self) -> Receiver<DiagnosticEvent> {
        self.inner.subscribe_events().await
    }
}

'''
open('/verif/harness/src/rec_client.rs', 'w').write(head + gen)
