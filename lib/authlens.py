"""Authentication lens (specs/IggyAuth.tla, MC_IggyAuth.tla, Trace_IggyAuth.tla; harness lens `auth`). Serves C10."""
import json, os, random, time
from common import *

LENS = 'auth'
TRACE_MODULE = 'Trace_IggyAuth'
FAMILIES = {'C10': ['credentials']}
CONSTS = dict(Seeded='FALSE', OnlyAllowed='FALSE', Names='{"ann","bob"}', Pwds='{"p1","p2"}', Toks='{1,2}', Conns='{2,3}', MaxNow=2,
              Ops='{"login","login_pat","logout","create_user","change_password","set_status","delete_user","create_pat","delete_pat","tick","clean","restart"}')


def mc_family(family, tier, wd):
    consts = dict(CONSTS, MaxOps=5 if tier == 'quick' else 7)
    cfg = os.path.join(wd, 'MC_auth.cfg')
    write_cfg(cfg, 'MCSpec', consts, invariants=['TypeOK', 'ExpiredNeverValid'], properties=['OldPasswordDead'], constraint='Bounded', view='View')
    t0 = time.time()
    r = tlc_mc('MC_IggyAuth', cfg, wd, workers=8, timeout=2400)
    log(f'auth: MC {r["distinct"]} distinct states, {r["states"]} transitions in {time.time() - t0:.0f}s')
    r['consts'] = consts
    return r


def concrete_maps(rnd):
    """model values -> concrete boundary-length values: user names 3 and 50 bytes, passwords 3 and 100 bytes (distinctive, so that the
    file scan cannot hit by accident)"""
    def s(n, tag):
        body = ''.join(rnd.choice('abcdefghijklmnopqrstuvwxyz0123456789') for _ in range(n))
        return (tag + body)[:n]
    names = {'ann': s(rnd.choice([3, 8, 50]), 'an'), 'bob': s(rnd.choice([4, 12, 50]), 'bo')}
    pwds = {'p1': s(rnd.choice([12, 24, 100]), 'Qz7'), 'p2': s(rnd.choice([12, 31, 100]), 'Xk9')}
    return names, pwds


def build_scenarios(families, tier, wd, seed):
    rnd = random.Random(seed)
    consts = dict(CONSTS, MaxOps=2)   # (depth 3 of the unseeded alphabet is 11 million scripts; depth comes from the seeded continuations and the walks)
    cfg = os.path.join(wd, 'Gen_auth.cfg')
    write_cfg(cfg, 'MCSpec', consts, invariants=['EmitScript'], constraint='Bounded')
    t0 = time.time()
    paths = [s for s in tlc_scripts('MC_IggyAuth', cfg, wd, workers=4, timeout=900) if len(s) >= 3]
    # from the seeded state (a user that is logged in and holds a token): EVERY allowed continuation of 2 (thorough: 3) operations
    consts3 = dict(CONSTS, Seeded='TRUE', OnlyAllowed='TRUE', MaxOps=3 + (1 if tier == 'quick' else 2))
    cfg3 = os.path.join(wd, 'GenSeeded_auth.cfg')
    write_cfg(cfg3, 'MCSpec', consts3, invariants=['EmitScript'], constraint='Bounded')
    seeded = [s for s in tlc_scripts('MC_IggyAuth', cfg3, wd, workers=4, timeout=900) if len(s) >= 3 + (2 if tier == 'quick' else 3)]
    consts2 = dict(CONSTS, MaxOps=14 if tier == 'quick' else 24)
    cfg2 = os.path.join(wd, 'Sim_auth.cfg')
    write_cfg(cfg2, 'MCSpec', consts2, invariants=['EmitScript'], constraint='Bounded')
    walks = tlc_scripts('MC_IggyAuth', cfg2, wd, workers=1, timeout=600, simulate=(100 if tier == 'quick' else 1000, consts2['MaxOps'] + 1), seed=seed)
    cfg4 = os.path.join(wd, 'SimSeeded_auth.cfg')
    write_cfg(cfg4, 'MCSpec', dict(consts2, Seeded='TRUE'), invariants=['EmitScript'], constraint='Bounded')
    walks += tlc_scripts('MC_IggyAuth', cfg4, wd, workers=1, timeout=600, simulate=(50 if tier == 'quick' else 500, consts2['MaxOps'] + 1), seed=seed + 1)
    log(f'auth: {len(paths)} path-cover scripts, {len(seeded)} seeded continuations, {len(walks)} walks in {time.time() - t0:.0f}s')
    budget = {'quick': 200, 'thorough': 4000}[tier]
    if len(paths) > budget:
        paths = rnd.sample(paths, budget)
    sbudget = {'quick': 600, 'thorough': 6000}[tier]
    if len(seeded) > sbudget:
        seeded = rnd.sample(seeded, sbudget)
    # a token's expiry moment is fixed when it is created: time that passes BEFORE a restart counts (seeded change C10_4)
    fixed = [[dict(op='create_user', c=1, name='ann', pwd='p1', active=True), dict(op='login', c=2, name='ann', pwd='p1'),
              dict(op='create_pat', c=2, tok=1, ttl=2), dict(op='tick', by=1), dict(op='restart'), dict(op='tick', by=1), dict(op='tick', by=1)],
             [dict(op='create_user', c=1, name='ann', pwd='p1', active=True), dict(op='login', c=2, name='ann', pwd='p1'),
              dict(op='create_pat', c=2, tok=1, ttl=3), dict(op='tick', by=2), dict(op='restart'), dict(op='restart'), dict(op='tick', by=1), dict(op='clean')]]
    scenarios = []
    for n, s in enumerate(fixed + fixed + paths + seeded + walks):
        names, pwds = concrete_maps(rnd)
        scenarios.append(dict(id=f'auth-{n + 1}', family='credentials', cfg=dict(cache='off'), seed=rnd.randrange(1 << 30), conns=3,
                              names=names, pwds=pwds, steps=s))
    return scenarios, {'credentials': dict(path_cover_scripts=len(paths), seeded_continuations=len(seeded), simulated_walks=len(walks), fixed_scripts=2 * len(fixed))}


def shard(scenarios, nshards):
    return [scenarios[i::nshards] for i in range(nshards) if scenarios[i::nshards]]


def attribute(prop, scn, events_bad):
    return [(i, ev, lab) for i, (ev, labels) in sorted(events_bad.items()) for lab in labels]


def nontrivial(prop, scn, evs):
    # some candidate credential is stale / expired / of an inactive or deleted user: a refused login of a once-valid credential
    ops = [s['op'] for s in scn['steps']]
    return any(o in ops for o in ('change_password', 'set_status', 'delete_user', 'delete_pat')) or ('tick' in ops and 'create_pat' in ops)

RULES = {'C10': 'scenario makes a once-valid credential stale (password change, status change, user/token deletion, token expiry)'}
ASSUMPTIONS = ['candidate credentials: every (user name, password) pair of the scenario and every token ever issued, tried over TCP and HTTP after every step',
               'clock through hook H1 (1 tick = 1000 s); token ttl is a whole number of ticks',
               'the secret scan looks for the raw bytes of every password / token in every file under the data directory']
