#!/usr/bin/env python3
"""Prints the prompt given to a fresh sub-agent that seeds a property-breaking change (nothing from /verif is shown to it)."""
import json, sys
props = {json.loads(l)['id']: json.loads(l) for l in open('/verif/properties.jsonl')}
TEMPLATE = '''You are a careful Rust engineer acting as a "red team" for a verification effort. The project is iggy-rs/iggy (a single-node persistent message streaming server in Rust: append-only segmented log, indexes, consumer groups, binary TCP/QUIC/HTTP protocol, SDK). A pinned checkout lives in /repo (DO NOT modify /repo, do not commit there, do not look at or touch /verif).

Your job: produce {n} DIFFERENT small source changes ("mutants") to iggy that each BREAK the property below while the code still compiles and the project's existing test suite still passes. Each change must need something specific to manifest - a particular multi-step sequence of operations, a particular configuration (save threshold, segment size, cache off, ...), an unusual input, a restart or fault at a particular point, a particular interleaving, or two cooperating edits that each look harmless alone - NOT something that ordinary use or any simple smoke test would expose at once. Think of realistic slips a maintainer could make in a refactoring (off-by-one at a boundary, wrong branch for a rare case, a field not updated on one path, a condition that is wrong only for non-first segments, ...). The changes should be in the implementation (server/ or sdk/ non-test code), small (a few lines), and different from each other in location and mechanism.

PROPERTY {pid} - {title}
{statement}

Set-up (the sandbox has NO network; everything is offline):
1. Create your own scratch git worktree (exactly this path): `git -C /repo worktree add --detach {wt} HEAD`  then  `cp -al /repo/target {wt}/target`  (hard-linked copy of the build cache so that builds are incremental; the workspace crates will rebuild once, a few minutes), then `rm -f {wt}/target/nextest/pb/junit.xml` (that file would otherwise be a hard link shared with other checkouts and parallel test runs would overwrite each other's results). Work ONLY inside {wt}.
2. The existing suite: `cd {wt} && cargo nextest run --workspace --no-fail-fast --tool-config-file pb:/w/lib/nextest.toml --profile pb --test-threads 8 --offline` (about 3-10 min). On the unchanged tree 808 tests pass and 189 fail (those need a server binary that does not exist here) - that is the baseline. The list of tests that must still pass is the array "stable_pass" in /root/.vp/BASELINE.json (names look like "server::streaming::...::test_name", i.e. "<junit testsuite name>::<testcase name>"); results are written to {wt}/target/nextest/pb/junit.xml. A mutant is acceptable only if every test of stable_pass still passes with it. To save time you may first run only the obviously related tests (`cargo nextest run -p server ... <filter>`), but run the full command at least once per mutant before you keep it.
3. For each mutant write a DEMONSTRATION: a Rust test (preferably a new file under {wt}/integration/tests/ wired into the existing `mod` test target the same way its siblings are - look at integration/tests/streaming/*.rs for how tests build a System/Topic/Partition in-process with a temp directory - or a #[tokio::test] in the server crate) that PASSES on the unchanged tree and FAILS with the mutant applied. Run it both ways and record the outputs. The demonstration may use any configuration it needs (e.g. cache disabled, messages_required_to_save = 2, tiny segment size).
4. Deliver, for each mutant k = 1..{n}, a directory {wt}/out/{pid}_k/ containing:
   - patch.diff : `git diff` of ONLY the mutant (implementation change, no test), relative to HEAD, applicable with `git apply` at the repository root;
   - demo.diff : the diff that adds the demonstration test (applicable on its own to HEAD);
   - meta.json : {{"property": "{pid}", "title": "...", "what_it_breaks": "...", "needs_to_manifest": "...", "files_changed": [...], "demo_cmd": "exact cargo command that runs the demonstration", "demo_result_unchanged": "pass", "demo_result_mutant": "fail (assertion ...)", "suite_run": "how you ran the existing suite and the pass/fail counts you observed with the mutant"}}.
   Make sure the worktree is reset between mutants (`git checkout -- . && git clean -fd -e out -e target`), so every patch is independent and relative to HEAD.
5. When done, leave {wt}/out in place (the caller collects it and removes the worktree). Do NOT remove the worktree yourself. Do not leave stray processes running.

Rules: stay inside {wt}; never write to /repo or /verif; do not weaken or edit existing tests; the mutant must not be detectable by the existing tests (that is the point); prefer changes whose effect is visible through the public API behaviour described in the property. If a candidate turns out to be caught by the existing suite, discard it and try another. Keep total disk use modest (no extra copies of target beyond the one hard-linked copy).

Finish with a short report listing, per mutant: the one-line idea, the file/line changed, what is needed to trigger it, and the demo command.
'''
def prompt(pid, n=2):
    p = props[pid]
    return TEMPLATE.format(n=n, pid=pid, title=p['title'], statement=p['statement'], wt=f'/tmp/mut_{pid}')
if __name__ == '__main__':
    print(prompt(sys.argv[1], int(sys.argv[2]) if len(sys.argv) > 2 else 2))
