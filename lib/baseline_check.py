#!/usr/bin/env python3
"""Compare /repo/target/nextest/pb/junit.xml (after running hooks.baseline_off_cmd) with BASELINE.json stable_pass."""
import json, sys, xml.etree.ElementTree as ET
stable = set(json.load(open('/root/.vp/BASELINE.json'))['stable_pass'])
passed = set()
for ts in ET.parse('/repo/target/nextest/pb/junit.xml').getroot().iter('testsuite'):
    for tc in ts.iter('testcase'):
        if tc.find('failure') is None and tc.find('error') is None:
            passed.add(ts.get('name') + '::' + tc.get('name'))
missing = sorted(stable - passed)
print(f"stable_pass={len(stable)} passed_now={len(passed)} stable_now_failing={len(missing)}")
for m in missing[:50]:
    print("  FAILING:", m)
sys.exit(1 if missing else 0)
