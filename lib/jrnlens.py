"""Journal lens (specs/IggyJournal.tla, MC_IggyJournal.tla, Trace_IggyJournal.tla; harness lens `jrn`). Serves C11."""
import itertools, json, os, random, time
from common import *

LENS = 'jrn'
TRACE_MODULE = 'Trace_IggyJournal'
FAMILIES = {'C11': ['journal']}


def mc_family(family, tier, wd):
    cfg = os.path.join(wd, 'MC_journal.cfg')
    consts = dict(Procs='{1,2,3}', MaxFaults=2, MaxOps=5 if tier == 'quick' else 7, Serialized='TRUE')
    write_cfg(cfg, 'Spec', consts, invariants=['AlwaysLoadable', 'TamperInv'])
    t0 = time.time()
    r = tlc_mc('MC_IggyJournal', cfg, wd, workers=4, timeout=1800)
    # negative control: the original two-step design must be refuted (it is what was forced on the real code before the fix)
    cfg2 = os.path.join(wd, 'MC_journal_old.cfg')
    write_cfg(cfg2, 'Spec', dict(Procs='{1,2}', MaxFaults=1, MaxOps=4, Serialized='FALSE'), invariants=['AlwaysLoadable'])
    r2 = tlc_mc('MC_IggyJournal', cfg2, wd, workers=1, timeout=600)
    if r2['ok']:
        raise ToolError('the as-coded (unserialized) journal model was NOT refuted: the model lost its teeth')
    log(f'journal: serialized design {r["distinct"]} distinct states in {time.time() - t0:.0f}s; original design refuted as expected')
    r['consts'] = dict(consts, negative_control='Serialized=FALSE refuted: ' + ','.join(r2['violated']))
    return r


def build_scenarios(families, tier, wd, seed):
    rnd = random.Random(seed)
    scenarios = []
    n = 0
    # every order of 2 and 3 appliers x every set of failing appends x journals that are empty / hold 1-2 entries
    for a in (2, 3):
        for order in itertools.permutations(range(a)):
            for k in range(0, a + 1 if tier == 'thorough' else 2):
                for faults in itertools.combinations(range(a), k):
                    for pre in ((0, 1, 2) if tier == 'thorough' else (0, 2)):
                        for enc in ((False, True) if tier == 'thorough' else (False,)):
                            n += 1
                            scenarios.append(dict(id=f'sched-{n}', family='sched', kind='sched', entries=pre, order=list(order), faults=list(faults),
                                                  encrypted=enc, seed=rnd.randrange(1 << 30), steps=[1, 2, 3]))
    for ne in ((3, 5) if tier == 'quick' else (3, 5, 8)):
        for enc in (False, True):
            n += 1
            scenarios.append(dict(id=f'tamper-{ne}-{"enc" if enc else "plain"}', family='tamper', kind='tamper', entries=ne, encrypted=enc,
                                  huge=(tier == 'thorough'), seed=rnd.randrange(1 << 30), steps=[1, 2, 3]))
    return scenarios, {'journal': dict(schedules=sum(1 for s in scenarios if s['kind'] == 'sched'), tampered_journals=sum(1 for s in scenarios if s['kind'] == 'tamper'))}


def shard(scenarios, nshards):
    # tamper scenarios are the long ones: spread them first
    t = [s for s in scenarios if s['kind'] == 'tamper']
    o = [s for s in scenarios if s['kind'] != 'tamper']
    shards = [[x] for x in t]
    k = max(1, nshards - len(shards))
    shards += [o[i::k] for i in range(k) if o[i::k]]
    return shards


def attribute(prop, scn, events_bad):
    return [(i, ev, lab) for i, (ev, labels) in sorted(events_bad.items()) for lab in labels]


def nontrivial(prop, scn, evs):
    if scn['kind'] == 'sched':
        return scn['order'] != sorted(scn['order']) or bool(scn['faults'])
    return any(e['ev'] == 'tamper_summary' and sum(e['counts'].values()) > 100 for e in evs)

RULES = {'C11': 'schedules in which the appliers are released out of index order or an append fails; tampered journals with > 100 mutations tried'}
ASSUMPTIONS = ['schedules are forced through the guarded schedule point between index allocation and append (bounded wait: an implementation that serialises more is fine); failures through the guarded persister fault switch',
               'tamper sweep: every byte x {each single-bit flip, 0x00, 0xFF}, every truncation length, every entry removed / duplicated / swapped, trailing garbage, on plain and encrypted journals; mutations making a length field huge are sampled in the quick tier',
               'the journal commands are CreateStream / CreateUser / DeleteStream entries written by the real FileState::apply']
