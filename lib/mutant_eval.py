#!/usr/bin/env python3
"""Self-test: run checks against a seeded change WITHOUT touching /repo or /verif's evidence.
usage: mutant_eval.py <seeded/<id> dir or patch file> <slot> <Cnn> [<Cnn> ...]
Creates /tmp/mev<slot>/{repo (git worktree of /repo HEAD + patch), harness (copy of /verif/harness with path deps rewritten,
target hard-linked), out (work/evidence/replays)}; prints one line per property: `<id> <Cnn> exit=<rc> <first VIOLATION/KNOWN line>`.
The scratch tree is removed at the end (keep with MEV_KEEP=1)."""
import json, os, shutil, subprocess, sys, time
V = os.path.dirname(os.path.dirname(os.path.abspath(__file__)))

def sh(cmd, **kw):
    return subprocess.run(cmd, shell=True, text=True, stdout=subprocess.PIPE, stderr=subprocess.STDOUT, **kw)

def main():
    src, slot, props = sys.argv[1], sys.argv[2], sys.argv[3:]
    patch = src if os.path.isfile(src) else os.path.join(src, 'patch.diff')
    name = os.path.basename(os.path.dirname(os.path.abspath(patch))) if os.path.isdir(src) else os.path.basename(src)
    root = f'/tmp/mev{slot}'
    sh(f'git -C /repo worktree remove --force {root}/repo; rm -rf {root}')
    os.makedirs(root)
    r = sh(f'git -C /repo worktree add --detach {root}/repo HEAD')
    if r.returncode:
        print(r.stdout); return 2
    r = sh(f'git -C {root}/repo apply {os.path.abspath(patch)}')
    if r.returncode:
        print(f'{name}: patch does not apply to current HEAD: {r.stdout[:300]}'); sh(f'git -C /repo worktree remove --force {root}/repo; rm -rf {root}'); return 2
    os.makedirs(f'{root}/harness')
    sh(f'cp -r {V}/harness/src {V}/harness/.cargo {root}/harness/ && cp -al {V}/harness/target {root}/harness/target')
    toml = open(f'{V}/harness/Cargo.toml').read().replace('/repo/', f'{root}/repo/')
    open(f'{root}/harness/Cargo.toml', 'w').write(toml)
    shutil.copy(f'{root}/repo/Cargo.lock', f'{root}/harness/Cargo.lock')
    os.makedirs(f'{root}/out')
    shutil.copy(f'{V}/known-findings.json', f'{root}/out/known-findings.json')
    env = dict(os.environ, VERIF_REPO=f'{root}/repo', VERIF_HARNESS=f'{root}/harness', VERIF_OUT=f'{root}/out')
    res = {}
    for p in props:
        t0 = time.time()
        r = subprocess.run([f'{V}/check', p, '--tier', os.environ.get('MEV_TIER', 'quick')], cwd=V, env=env, text=True,
                           stdout=subprocess.PIPE, stderr=subprocess.PIPE)
        lines = [l for l in r.stdout.splitlines() if l.startswith(('VIOLATION', 'KNOWN-FINDING'))]
        detail = ''
        if r.returncode == 1:
            try:
                rp = json.load(open(lines[0].split('replay=')[1]))
                detail = json.dumps(rp['labels'][:3])[:300]
            except Exception:
                pass
        if r.returncode == 2:
            detail = r.stderr.strip().splitlines()[-1][:300] if r.stderr.strip() else ''
        print(f'{name} {p} exit={r.returncode} wall={time.time() - t0:.0f}s {lines[0] if lines else ""} {detail}', flush=True)
        res[p] = r.returncode
    if not os.environ.get('MEV_KEEP'):
        sh(f'git -C /repo worktree remove --force {root}/repo; rm -rf {root}')
    return 0

if __name__ == '__main__':
    sys.exit(main())
