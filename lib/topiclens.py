"""Topic lens (specs/IggyTopic.tla, MC_IggyTopic.tla, Trace_IggyTopic.tla; harness lens `topic`). Serves C15 C16 C17."""
import json, os, random, time
from common import *

LENS = 'topic'
TRACE_MODULE = 'Trace_IggyTopic'
MSG = 61   # bytes per 16-byte-payload message; a persisted batch adds 24

FAMILIES = {'C15': ['limit'], 'C16': ['counts', 'limit'], 'C17': ['select', 'rotate']}
# (C15: the limit is enforced on the size the topic reports; in a limited topic a reported size that is not the stored size
#  means the limit is not enforced as configured, whatever the gate then does)
LABELS = {'C15': ('C15.', 'C16.size', 'C16.topic_sum'), 'C16': ('C16.',), 'C17': ('C17.',)}

GEN = {
    # family: MC constants (sizes in message units), scenario parameters
    'limit': dict(consts=dict(P0Set='{1,2}', MaxP=2, Keys='{"ka"}', MaxMsgs=8, MaxBatch=2, LimitSet='{0,4}', SegCap=2,
                              Ops='{"send","set_limit","maintain","restart","purge"}'), both_del=True),
    'select': dict(consts=dict(P0Set='{1,3}', MaxP=3, Keys='{"ka","kb"}', MaxMsgs=6, MaxBatch=2, LimitSet='{0}', SegCap=3,
                               Ops='{"send","add_parts","del_parts","restart"}'), both_del=False),
    # balanced sends only, interleaved with partition additions / removals: EVERY history of 4 (thorough 6) operations from 3 partitions
    'rotate': dict(consts=dict(P0Set='{3}', MaxP=3, Keys='{"ka"}', MaxMsgs=8, MaxBatch=1, LimitSet='{0}', SegCap=3, Kinds='{"balanced"}',
                               Ops='{"send","add_parts","del_parts","restart"}'), both_del=False,
                   gen_maxops=dict(quick=3, thorough=5), budget=dict(quick=1500, thorough=20000), cfgs_per_script=1, walks=dict(quick=20, thorough=200)),
    'counts': dict(consts=dict(P0Set='{2}', MaxP=3, Keys='{"ka"}', MaxMsgs=6, MaxBatch=2, LimitSet='{0}', SegCap=2,
                               Ops='{"send","add_parts","del_parts","purge","restart","send_other"}'), both_del=False),
}
MC_INV = ['TypeOK', 'KeyDeterministic', 'NoDoubleStore', 'BalancedSpread']
MC_PROPS = ['GateHolds', 'NeverNewest']


def mc_family(family, tier, wd):
    g = GEN[family]
    res = None
    for dele in (['TRUE', 'FALSE'] if g['both_del'] else ['FALSE']):
        consts = dict(g['consts']); consts['DelOldest'] = dele
        consts.setdefault('Kinds', '{"id","key","balanced"}')
        consts['MaxOps'] = 5 if tier == 'quick' else 7
        if tier == 'quick':
            consts['MaxMsgs'] = min(5, consts['MaxMsgs'])
        cfg = os.path.join(wd, f'MC_{family}_{dele}.cfg')
        write_cfg(cfg, 'MCSpec', consts, invariants=MC_INV, properties=MC_PROPS, constraint='Bounded', view='View')
        t0 = time.time()
        r = tlc_mc('MC_IggyTopic', cfg, wd, workers=8, timeout=2400)
        log(f'{family}/{dele}: MC {r["distinct"]} distinct states in {time.time() - t0:.0f}s')
        r['consts'] = consts
        if res is None:
            res = r
        else:
            res['states'] += r['states']; res['distinct'] += r['distinct']; res['ok'] = res['ok'] and r['ok']
            res['violated'] += r['violated']
            for a, v in r['actions'].items():
                o = res['actions'].get(a, (0, 0)); res['actions'][a] = (o[0] + v[0], o[1] + v[1])
    return res


def cfgs_for(family, tier):
    def c(thr, seg, **kw):
        d = dict(cache='off', cache_indexes=True, fsync=False, confirmation='wait', save_threshold=thr, segment_bytes=seg * MSG)
        d.update(kw); return d
    m = [c(1, 2), c(1000, 2), c(2, 3, cache='large'), c(1, 3, cache_indexes=False), c(3, 2)]
    if family == 'counts':
        # server-side encryption changes the stored size of every message: the reported sizes must follow
        m += [c(1, 2, encryption=True), c(1000, 3, encryption=True, cache='large')]
    if family == 'select':
        m += [c(1000, 0), c(1, 0, cache='large')]
    if tier == 'thorough':
        m += [c(2, 2, fsync=True), c(1000, 3, cache='large'), c(1, 1)]
    return m


def convert(script, cfg, rnd):
    """model units -> bytes; model keys -> concrete keys (seeded: lengths 1..255, any bytes would need a binary field; strings here)"""
    steps = []
    seg = cfg['segment_bytes'] or 1_000_000_000
    keymap = {}
    for op in script:
        op = dict(op)
        if op['op'] == 'set_limit':
            u = op.pop('units')
            # unit 1 = "below one segment" (must be refused); other units scale with the segment size
            op['bytes'] = 0 if u == 0 else (max(1, seg - 1) if u == 1 else u * (seg // 2 if seg < 10**8 else MSG))
        if op['op'] == 'send' and op.get('kind') == 'key':
            k = op['key']
            if k not in keymap:
                n = rnd.choice([1, 2, 7, 31, 255])
                keymap[k] = ''.join(rnd.choice('abcdefghijklmnopqrstuvwxyz0123456789-_') for _ in range(n))
            op['key'] = keymap[k]
        steps.append(op)
    return steps


def gen_scripts(family, tier, wd, seed):
    g = GEN[family]
    out = []
    for dele in (['TRUE', 'FALSE'] if g['both_del'] else ['FALSE']):
        consts = dict(g['consts']); consts['DelOldest'] = dele
        consts.setdefault('Kinds', '{"id","key","balanced"}')
        consts['MaxOps'] = g.get('gen_maxops', dict(quick=3, thorough=4))[tier]
        cfg = os.path.join(wd, f'Gen_{family}_{dele}.cfg')
        write_cfg(cfg, 'MCSpec', consts, invariants=['EmitScript'], constraint='Bounded')
        t0 = time.time()
        paths = [s for s in tlc_scripts('MC_IggyTopic', cfg, wd, workers=4, timeout=900) if len(s) >= 3]
        consts2 = dict(consts); consts2['MaxOps'] = 14 if tier == 'quick' else 22; consts2['MaxMsgs'] = 12 if tier == 'quick' else 18
        cfg2 = os.path.join(wd, f'Sim_{family}_{dele}.cfg')
        write_cfg(cfg2, 'MCSpec', consts2, invariants=['EmitScript'], constraint='Bounded')
        walks = tlc_scripts('MC_IggyTopic', cfg2, wd, workers=1, timeout=600,
                            simulate=(g.get('walks', dict(quick=50, thorough=500))[tier], consts2['MaxOps'] + 1), seed=seed)
        log(f'{family}/{dele}: {len(paths)} path-cover scripts, {len(walks)} walks in {time.time() - t0:.0f}s')
        out.append((dele == 'TRUE', paths, walks))
    return out


REGRESSIONS = [
    ('D6-gate-inverted', False, 1, 4,
     [{'op': 'send', 'kind': 'id', 'v': 1, 'k': 2}, {'op': 'send', 'kind': 'id', 'v': 1, 'k': 2}, {'op': 'send', 'kind': 'id', 'v': 1, 'k': 1},
      {'op': 'send', 'kind': 'balanced', 'k': 1}]),
    ('D6-gate-inverted-del', True, 1, 4,
     [{'op': 'send', 'kind': 'id', 'v': 1, 'k': 2}, {'op': 'send', 'kind': 'id', 'v': 1, 'k': 2}, {'op': 'send', 'kind': 'id', 'v': 1, 'k': 1},
      {'op': 'maintain'}, {'op': 'send', 'kind': 'balanced', 'k': 1}]),
]


def build_scenarios(families, tier, wd, seed):
    rnd = random.Random(seed)
    scenarios, stats = [], {}
    n = 0
    for fam in families:
        cfgs = cfgs_for(fam, tier)
        budget = GEN[fam].get('budget', {'quick': 120, 'thorough': 3000})[tier]
        tot_p = tot_w = 0
        for dele, paths, walks in gen_scripts(fam, tier, wd, seed):
            if len(paths) > budget:
                paths = rnd.sample(paths, budget)
            tot_p += len(paths); tot_w += len(walks)
            for s in paths + walks:
                # the model's initial state (partition count, limit) is not in the script: draw it as the model does
                for cfg in rnd.sample(cfgs, GEN[fam].get('cfgs_per_script', 2 if tier == 'quick' else 3)):
                    cfg = dict(cfg); cfg['delete_oldest'] = dele
                    seg = cfg['segment_bytes'] or 1_000_000_000
                    p0 = rnd.choice([1, 2] if fam == 'limit' else ([1, 3] if fam == 'select' else ([3] if fam == 'rotate' else [2])))
                    lim_units = rnd.choice([0, 4]) if fam == 'limit' else 0
                    n += 1
                    scenarios.append(dict(id=f'{fam}-{n}', family=fam, cfg=cfg, seed=rnd.randrange(1 << 30), parts=p0,
                                          limit_bytes=0 if lim_units == 0 else lim_units * (seg // 2), payload_len=16,
                                          steps=convert(s, cfg, rnd)))
        stats[fam] = dict(path_cover_scripts=tot_p, simulated_walks=tot_w, configs=len(cfgs))
        if fam == 'limit':
            for name, dele, p0, lim_units, steps in REGRESSIONS:
                cfg = dict(cfgs[0]); cfg['delete_oldest'] = dele
                n += 1
                scenarios.append(dict(id=f'{fam}-regress-{name}', family=fam, cfg=cfg, seed=7, parts=p0,
                                      limit_bytes=lim_units * (cfg['segment_bytes'] // 2), payload_len=16, steps=steps))
    return scenarios, stats


def shard(scenarios, nshards):
    by_cache = {}
    for s in scenarios:
        by_cache.setdefault(s['cfg'].get('cache', 'off'), []).append(s)
    shards = []
    for cache, lst in by_cache.items():
        k = max(1, round(nshards * len(lst) / max(1, len(scenarios))))
        for i in range(k):
            if lst[i::k]:
                shards.append(lst[i::k])
    return shards


def attribute(prop, scn, events_bad):
    out = []
    for i, (ev, labels) in sorted(events_bad.items()):
        for lab in labels:
            if prop == 'C15' and lab[0].startswith('C16.') and not scn.get('limit_bytes'):
                continue
            if lab[0].startswith('X.') or any(lab[0].startswith(p) for p in LABELS[prop]):
                out.append((i, ev, lab))
            elif prop == 'C17' and lab[0] == 'C01.cur':
                out.append((i, ev, lab))
    return out


def nontrivial(prop, scn, evs):
    if prop == 'C15':
        # a send issued while the topic was at or above its limit
        lim = scn.get('limit_bytes', 0)
        for k, e in enumerate(evs):
            if e['ev'] == 'set_limit' and e['res'] == 'ok':
                lim = e['bytes']
            if e['ev'] == 'send' and k > 0 and lim and evs[k - 1].get('obs', {}).get('topic', {}).get('size', 0) >= lim:
                return True
        return False
    if prop == 'C16':
        return any(e['ev'] in ('purge', 'del_parts', 'restart', 'maintain') and k > 0 and
                   evs[k - 1].get('obs', {}).get('topic', {}).get('count', 0) > 0 for k, e in enumerate(evs))
    if prop == 'C17':
        kinds = {s.get('kind') for s in scn['steps'] if s['op'] == 'send'}
        return len(kinds) >= 2 or any(s['op'] in ('add_parts', 'del_parts') for s in scn['steps'])
    return True

RULES = {
    'C15': 'scenario contains a send issued while the reported topic size was at or above the limit',
    'C16': 'a purge / partition deletion / restart / maintenance pass on a topic holding messages',
    'C17': 'sends of >= 2 partitioning kinds or a change of the partition count',
}
ASSUMPTIONS = ['the size that decides the gate is the size the server reports (C16 ties it to the bytes on disk at quiescent points)',
               'keys are strings of seeded lengths 1..255; exhaustive coverage of key bytes is not claimed',
               'MC sizes are abstract (one unit per message); the trace specification uses the measured bytes']
