"""Wire lens (specs/IggyWire.tla, Trace_IggyWire.tla; harness lens `wire`). Serves C13 (together with the catalogue lens over TCP and HTTP)."""
import json, os, random, time
from common import *

LENS = 'wire'
TRACE_MODULE = 'Trace_IggyWire'
FAMILIES = {'C13': ['wire'], 'C19': ['crypto']}


def mc_family(family, tier, wd):
    cfg = os.path.join(wd, 'MC_wire.cfg')
    with open(cfg, 'w') as f:
        f.write('SPECIFICATION Spec\nPROPERTY Isolation\nCHECK_DEADLOCK FALSE\n')
    r = tlc_mc('IggyWire', cfg, wd, workers=2, timeout=600)
    r['consts'] = dict(connections=2)
    return r


def build_scenarios(families, tier, wd, seed):
    rnd = random.Random(seed)
    scenarios = []
    if 'crypto' in families:
        # C19: the shared encryptor over every length; encrypted message round trips over both transports
        for k in range(2 if tier == 'quick' else 10):
            scenarios.append(dict(id=f'crypto-{k}', family='crypto', kind='crypto', seed=rnd.randrange(1 << 30), steps=[1, 2, 3]))
        for k in range(2 if tier == 'quick' else 12):
            scenarios.append(dict(id=f'messages-enc-{k}', family='crypto', kind='messages', per_type=40 if tier == 'quick' else 120, seed=rnd.randrange(1 << 30), steps=[1, 2, 3],
                                  cfg=dict(cache=rnd.choice(['off', 'large']), save_threshold=rnd.choice([1, 3, 1000]), encryption=True)))
        return scenarios, {'crypto': dict(scenarios=len(scenarios))}
    nrt = 8 if tier == 'quick' else 40
    for k in range(nrt):
        scenarios.append(dict(id=f'roundtrip-{k}', family='roundtrip', kind='roundtrip', per_type=150 if tier == 'quick' else 600, seed=rnd.randrange(1 << 30), steps=[1, 2, 3]))
    for k in range(4 if tier == 'quick' else 16):
        scenarios.append(dict(id=f'garbage-{k}', family='garbage', kind='garbage', per_type=60 if tier == 'quick' else 250, seed=rnd.randrange(1 << 30), steps=[1, 2, 3],
                              cfg=dict(cache='off')))
    for k in range(4 if tier == 'quick' else 24):
        scenarios.append(dict(id=f'messages-{k}', family='messages', kind='messages', per_type=40 if tier == 'quick' else 120, seed=rnd.randrange(1 << 30), steps=[1, 2, 3],
                              cfg=dict(cache=rnd.choice(['off', 'large']), save_threshold=rnd.choice([1, 3, 1000]))))
    return scenarios, {'wire': dict(roundtrip_scenarios=nrt, instances_per_type=150 if tier == 'quick' else 600)}


def shard(scenarios, nshards):
    return [scenarios[i::nshards] for i in range(nshards) if scenarios[i::nshards]]


def attribute(prop, scn, events_bad):
    # (in the C19 family a response that differs under encryption is a C19 matter: reads must stay lossless)
    return [(i, ev, lab) for i, (ev, labels) in sorted(events_bad.items()) for lab in labels
            if prop == 'C19' or not lab[0].startswith('C19.')]


def nontrivial(prop, scn, evs):
    if scn['kind'] == 'roundtrip':
        return len({e['type'] for e in evs if e['ev'] == 'roundtrip' and e['sdk_valid'] and e['decode'] == 'ok'}) >= 40
    if scn['kind'] == 'crypto':
        return sum(1 for e in evs if e['ev'] == 'crypto' and e['decrypt'] == 'ok') >= 600
    if scn['kind'] == 'messages':
        return sum(1 for e in evs if e['ev'] == 'pollback' and e['res'] == 'ok' and len(e['got']) > 0) >= 50
    return len({e['kind'] for e in evs if e['ev'] == 'garbage' and not e['is_valid']}) >= 4

RULES = {'C19': 'crypto sweeps with >= 600 lengths decrypted; encrypted message scenarios with >= 50 non-empty poll answers compared', 'C13': 'round-trip scenarios in which >= 40 command types were decoded from valid SDK encodings; garbage scenarios with >= 4 kinds of malformed frame; message scenarios with >= 50 non-empty poll answers compared'}
ASSUMPTIONS = ['poll responses: messages with payloads of 1..4096 bytes (boundary lengths), with and without headers of all kinds, explicit and server-assigned ids, sent over TCP, HTTP and QUIC, polled back over all three in every window (offset, 1..3) and as a whole',
               'requests: 49 command types built with seeded structure-aware values (numeric / 1,2,3,255-byte string identifiers, optional fields, all header kinds, all polling strategies and partitioning kinds), SDK-encoded and decoded by the server\'s own decoder (guarded re-export); the snapshot command is not covered',
               'responses are covered end to end by the other lenses (every scenario runs through the real TCP handlers and SDK decoders; the catalogue lens also over HTTP/JSON)',
               'exhaustive structure-aware fidelity over ALL values is outside this technique: the values are sampled']
