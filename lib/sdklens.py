"""SDK lens (specs/IggySdkProps.tla, IggySdk.tla, MC_IggySdk.tla, Trace_IggySdk.tla; harness lens `sdk`). Serves C20."""
import json, os, random, time
from common import *

LENS = 'sdk'
TRACE_MODULE = 'Trace_IggySdk'
FAMILIES = {'C20': ['sdk']}
MODES_MC = ('{"polling","each","all","nth","interval","manual","interval_or_polling","interval_or_each","interval_or_all","interval_or_nth",'
            '"after_each","after_all","after_nth","interval_or_after_each","interval_or_after_all","interval_or_after_nth"}')
MODES = ['disabled', 'polling', 'each', 'all', 'nth', 'interval', 'interval_or_polling', 'interval_or_each', 'interval_or_all', 'interval_or_nth',
         'after_each', 'after_all', 'after_nth', 'interval_or_after_each', 'interval_or_after_all', 'interval_or_after_nth']


def mc_family(family, tier, wd):
    consts = dict(Parts='{1,2}', MaxLen=3 if tier == 'quick' else 4, Batches='{1,2,3}', Modes=MODES_MC, Nth=2, MaxOps=1000, CatchUp='"nothing_new"', Zombie='FALSE')
    cfg = os.path.join(wd, 'MC_sdk.cfg')
    write_cfg(cfg, 'MCSpec', consts, invariants=['InOrderOnce', 'InvCommitLeFetched', 'InvCommitLeYielded', 'Complete'], properties=['NoRewindByDropped'], view='View')
    t0 = time.time()
    r = tlc_mc('MC_IggySdk', cfg, wd, workers=8, timeout=2400)
    # negative controls: the three as-found variants must be refuted (findings D28, D29, D30)
    controls = []
    for name, over, inv in (('D28 no catch-up commit', dict(CatchUp='"none"', Modes='{"nth"}'), 'Complete'),
                            ('D29 catch-up by the local memory', dict(CatchUp='"lagging"', Modes='{"after_all"}'), 'Complete'),
                            ('D30 interval task outlives the consumer', dict(Zombie='TRUE', Modes='{"interval"}'), 'NoRewindByDropped')):
        cfg2 = os.path.join(wd, f'MC_sdk_asfound_{inv}_{len(controls)}.cfg')
        write_cfg(cfg2, 'MCSpec', dict(consts, **over), view='View',
                  **(dict(properties=[inv], invariants=[]) if inv.startswith('NoRewind') else dict(invariants=[inv])))
        r2 = tlc_mc('MC_IggySdk', cfg2, wd, workers=2, timeout=600)
        if r2['ok']:
            raise ToolError(f'the as-found consumer algorithm ({name}) was NOT refuted: the model lost its teeth')
        controls.append(f'{name}: {inv} refuted')
    log(f'sdk: MC {r["distinct"]} distinct states, {r["states"]} transitions in {time.time() - t0:.0f}s '
        f'(consumer reference algorithm, all settings: InOrderOnce, CommitLeFetched, CommitLeYielded, Complete, NoRewindByDropped; as-found variants refuted)')
    r['consts'] = dict(consts, negative_controls=controls)
    return r


def merge(script, rnd, partitions, cons):
    """model script (send p / next / recreate) -> harness steps: consecutive sends to one partition become one producer call with a
    randomly chosen call kind, consecutive nexts one consume step; a final drain (consume until idle) is appended"""
    steps = []
    for op in script:
        if op['op'] == 'send':
            p = min(op['p'], partitions)
            if steps and steps[-1]['op'] == 'send' and steps[-1].get('_p') == p and rnd.random() < 0.7:
                steps[-1]['k'] += rnd.choice([1, 1, 2])
                continue
            call = rnd.choice(['send', 'send', 'send_one', 'send_with_partitioning', 'send_with_partitioning', 'send_to', 'send_to'])
            st = dict(op='send', call=call, k=rnd.choice([1, 1, 2, 3]), _p=p)
            if call in ('send_with_partitioning', 'send_to'):
                st['part'] = rnd.choice([f'pid:{p}', f'pid:{p}', 'balanced', 'key:k' + str(rnd.randrange(3)), ''])
            if call == 'send_to':
                st['to'] = rnd.choice([[1, 1], [1, 1], [1, 2], [2, 1], [2, 2]])
            steps.append(st)
        elif op['op'] == 'next':
            if steps and steps[-1]['op'] == 'consume':
                steps[-1]['n'] += 1
            else:
                steps.append(dict(op='consume', n=1))
        elif op['op'] == 'recreate':
            steps.append(dict(op='recreate'))
    steps.append(dict(op='consume', n=0))
    if rnd.random() < 0.5:
        steps += [dict(op='recreate'), dict(op='send', call='send', k=rnd.choice([1, 2, 4]), _p=1), dict(op='consume', n=0)]
    for s in steps:
        s.pop('_p', None)
    return steps


def settings(rnd, n):
    partitions = rnd.choice([1, 2, 2, 3])
    kind = rnd.choice(['single', 'single', 'group'])
    cpart = rnd.randrange(1, partitions + 1)
    mode = MODES[n % len(MODES)]
    strategy = rnd.choice(['next'] * 6 + ['offset:0', 'offset:2', 'first', 'last']) if kind == 'single' else 'next'
    if mode == 'disabled' and strategy != 'next':
        strategy = 'next'
    cons = dict(kind=kind, partition=cpart, strategy=strategy, batch=rnd.choice([1, 2, 3, 4, 10]), mode=mode, nth=rnd.choice([2, 3]),
                interval_ms=rnd.choice([2, 5]), poll_interval_us=rnd.choice([0, 0, 0, 300]))
    # the producer's default partitioning usually names the consumer's partition, so that there is something to consume
    prod = dict(batch=rnd.choice([0, 1, 2, 3, 1000]), interval_us=rnd.choice([0, 0, 400]),
                part=rnd.choice([f'pid:{cpart}', f'pid:{cpart}', 'none', 'balanced', 'key:dk']), retries=rnd.random() < 0.3)
    return partitions, prod, cons


def build_scenarios(families, tier, wd, seed):
    rnd = random.Random(seed)
    consts = dict(Parts='{1,2}', MaxLen=3, Batches='{2}', Modes='{"each"}', Nth=2, CatchUp='"nothing_new"', Zombie='FALSE', MaxOps=5 if tier == 'quick' else 6)
    cfg = os.path.join(wd, 'Gen_sdk.cfg')
    write_cfg(cfg, 'MCSpec', consts, invariants=['EmitScript'], constraint='Bounded')
    t0 = time.time()
    raw = tlc_scripts('MC_IggySdk', cfg, wd, workers=4, timeout=900)
    seen, paths = set(), []
    for s in raw:
        key = json.dumps(s, sort_keys=True)
        if key not in seen and len(s) >= 3 and any(o['op'] == 'next' for o in s):
            seen.add(key)
            paths.append(s)
    consts2 = dict(consts, MaxLen=6, MaxOps=16 if tier == 'quick' else 30)
    cfg2 = os.path.join(wd, 'Sim_sdk.cfg')
    write_cfg(cfg2, 'MCSpec', consts2, invariants=['EmitScript'], constraint='Bounded')
    walks = tlc_scripts('MC_IggySdk', cfg2, wd, workers=1, timeout=600, simulate=(100 if tier == 'quick' else 1000, 3 * consts2['MaxOps']), seed=seed)
    log(f'sdk: {len(paths)} distinct path-cover scripts, {len(walks)} walks in {time.time() - t0:.0f}s')
    budget = {'quick': 300, 'thorough': 4000}[tier]
    if len(paths) > budget:
        paths = rnd.sample(paths, budget)
    scenarios = []
    for n, s in enumerate(paths + walks):
        partitions, prod, cons = settings(rnd, n)
        scenarios.append(dict(id=f'sdk-{n + 1}', family='sdk', cfg=dict(cache=rnd.choice(['off', 'on'])), seed=rnd.randrange(1 << 30),
                              partitions=partitions, encrypt=rnd.random() < 0.2, producer=prod, consumer=cons, steps=merge(s, rnd, partitions, cons)))
    return scenarios, {'sdk': dict(path_cover_scripts=len(paths), simulated_walks=len(walks))}


def shard(scenarios, nshards):
    return [scenarios[i::nshards] for i in range(nshards) if scenarios[i::nshards]]


def attribute(prop, scn, events_bad):
    return [(i, ev, lab) for i, (ev, labels) in sorted(events_bad.items()) for lab in labels]


def nontrivial(prop, scn, evs):
    return any(e['ev'] == 'yield' for e in evs) and any(e['ev'] == 'wire_send' for e in evs)

RULES = {'C20': 'the real producer sent at least one batch and the real consumer yielded at least one message'}
ASSUMPTIONS = ['a consumer is re-created only after the background commits of the dropped one have landed (the harness waits for quiescence)',
               'completeness (nothing skipped, the idle consumer has reached the end) is demanded for the strategies next and offset; for first / last only "in order, nothing twice"',
               'mode disabled: the application (the harness) stores the offset of every message it has processed, the documented manual way',
               'the After(...) commit modes are driven through consume_messages() (IggyConsumerMessageExt): every consume step is then one incarnation of the consumer',
               'no connection faults: send retries are configured but never triggered']
