"""Consumer-group lens (specs/IggyGroups.tla, MC_IggyGroups.tla, Trace_IggyGroups.tla; harness lens `grp`). Serves C08 (+ C07 group side)."""
import json, os, random, time
from common import *

LENS = 'grp'
TRACE_MODULE = 'Trace_IggyGroups'
FAMILIES = {'C08': ['groups'], 'C07': ['groups'],
            # C13: the group details (every member with its partitions, also members that own none) as decoded by the SDK
            'C13': ['groups']}
LABELS = {'C08': ('C08.',), 'C07': ('C07.',), 'C13': ('C08.assign', 'C08.members', 'C08.view', 'C08.')}
CONSTS = dict(P0=2, MaxP=3, Clients='{1,2,3}', MaxLen=3,
              Ops='{"join","leave","disconnect","add_parts","del_parts","send","poll","store_last","restart"}')


def mc_family(family, tier, wd):
    res = None
    for p0 in ([2, 3] if tier == 'quick' else [1, 2, 3]):
        consts = dict(CONSTS, P0=p0, MaxOps=6 if tier == 'quick' else 8)
        cfg = os.path.join(wd, f'MC_groups_{p0}.cfg')
        write_cfg(cfg, 'MCSpec', consts, invariants=['TypeOK', 'Assigned', 'GroupExactlyOnce', 'RotationFair'], constraint='Bounded', view='View')
        t0 = time.time()
        r = tlc_mc('MC_IggyGroups', cfg, wd, workers=8, timeout=2400)
        log(f'groups/P0={p0}: MC {r["distinct"]} distinct states in {time.time() - t0:.0f}s')
        r['consts'] = consts
        if res is None:
            res = r
        else:
            res['states'] += r['states']; res['distinct'] += r['distinct']; res['ok'] = res['ok'] and r['ok']; res['violated'] += r['violated']
    return res


def build_scenarios(families, tier, wd, seed):
    rnd = random.Random(seed)
    scenarios = []
    n = 0
    tot_p = tot_w = 0
    for p0 in (2, 3):
        consts = dict(CONSTS, P0=p0, MaxOps=3 if tier == 'quick' else 4)
        cfg = os.path.join(wd, f'Gen_groups_{p0}.cfg')
        write_cfg(cfg, 'MCSpec', consts, invariants=['EmitScript'], constraint='Bounded')
        t0 = time.time()
        paths = [s for s in tlc_scripts('MC_IggyGroups', cfg, wd, workers=4, timeout=900) if len(s) >= 3]
        consts2 = dict(consts, MaxOps=16 if tier == 'quick' else 26, MaxLen=6, MaxP=4)
        cfg2 = os.path.join(wd, f'Sim_groups_{p0}.cfg')
        write_cfg(cfg2, 'MCSpec', consts2, invariants=['EmitScript'], constraint='Bounded')
        walks = tlc_scripts('MC_IggyGroups', cfg2, wd, workers=1, timeout=600,
                            simulate=(120 if tier == 'quick' else 1200, consts2['MaxOps'] + 1), seed=seed + p0)
        log(f'groups/P0={p0}: {len(paths)} path-cover scripts, {len(walks)} walks in {time.time() - t0:.0f}s')
        budget = {'quick': 250, 'thorough': 4000}[tier]
        if len(paths) > budget:
            paths = rnd.sample(paths, budget)
        tot_p += len(paths); tot_w += len(walks)
        for s in paths + walks:
            n += 1
            cfg_s = dict(cache=rnd.choice(['off', 'off', 'large']), save_threshold=rnd.choice([1, 2, 1000]), segment_bytes=rnd.choice([0, 0, 200]))
            scenarios.append(dict(id=f'groups-{n}', family='groups', cfg=cfg_s, seed=rnd.randrange(1 << 30), parts=p0, clients=3, steps=s))
    # regression / targeted: the member commits manually without naming the partition while owning two partitions (seeded change C07_2)
    n += 1
    scenarios.append(dict(id='groups-regress-store-without-partition', family='groups', cfg=dict(cache='off'), seed=7, parts=2, clients=3,
                          steps=[dict(op='join', c=1), dict(op='send', p=1, k=3), dict(op='send', p=2, k=3),
                                 dict(op='poll', c=1, n=2, auto=False), dict(op='store_last', c=1),
                                 dict(op='poll', c=1, n=2, auto=False), dict(op='store_last', c=1),
                                 dict(op='poll', c=1, n=2, auto=True), dict(op='poll', c=1, n=2, auto=True)]))
    return scenarios, {'groups': dict(path_cover_scripts=tot_p, simulated_walks=tot_w)}


def shard(scenarios, nshards):
    by_cache = {}
    for s in scenarios:
        by_cache.setdefault(s['cfg'].get('cache', 'off'), []).append(s)
    shards = []
    for cache, lst in by_cache.items():
        k = max(1, round(nshards * len(lst) / max(1, len(scenarios))))
        for i in range(k):
            if lst[i::k]:
                shards.append(lst[i::k])
    return shards


def attribute(prop, scn, events_bad):
    out = []
    for i, (ev, labels) in sorted(events_bad.items()):
        for lab in labels:
            if lab[0].startswith('X.') or any(lab[0].startswith(p) for p in LABELS[prop]):
                out.append((i, ev, lab))
    return out


def nontrivial(prop, scn, evs):
    if prop == 'C08':
        # a rebalance with more members than partitions, or a shrinking topic with members
        for e in evs:
            ob = e.get('obs')
            if ob and (len(ob['members']) > ob['P'] >= 0 and len(ob['members']) > 0 and (e['ev'] in ('join', 'del_parts'))):
                return True
        return sum(1 for e in evs if e['ev'] == 'poll' and e.get('r')) >= 2
    if prop == 'C13':
        return any(e.get('obs') and len(e['obs']['members']) > e['obs']['P'] and len(e['obs']['members']) > 0 for e in evs)
    return any((e['ev'] == 'store_last' and e['res'] == 'ok') or (e['ev'] == 'poll' and e.get('auto') and e.get('r')) for e in evs)

RULES = {'C13': 'a group with more members than partitions was read through get_consumer_group (members that own no partition)', 'C08': 'a rebalance leaving more members than partitions, or >= 2 polls that returned messages',
         'C07': 'a member stored an offset without naming the partition, or an auto-committing group poll returned messages'}
ASSUMPTIONS = ['the assignment is judged relationally (exclusive, balanced); which member owns which partition is read off get_consumer_group',
               'after a dropped TCP connection the sweep waits until the server has removed the client']
