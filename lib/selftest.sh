#!/bin/bash
# selftest.sh [slot]: the machinery's teeth. Every regression seed (a reverted fix, seeded/<Cnn>_r<k>) and, with ALL=1, every
# seeded change is applied to a scratch worktree of /repo (never /repo itself) and the quick check of its property must report a
# VIOLATION. Prints one line per seed; exit 1 if any seed goes undetected. Takes 3-6 minutes per seed.
SLOT=${1:-7}
cd "$(dirname "$0")/.."
pat='seeded/*_r*'; [ -n "$ALL" ] && pat='seeded/*'
rc=0
for d in $pat; do
  [ -f $d/patch.diff ] || continue
  prop=$(python3 -c "import json;print(json.load(open('$d/meta.json'))['property'])")
  patch=$d/patch.diff; [ -f $d/patch_rebased.diff ] && patch=$d/patch_rebased.diff
  out=$(python3 lib/mutant_eval.py $patch $SLOT $prop 2>&1 | tail -1)
  echo "$(basename $d): ${out:0:200}"
  echo "$out" | grep -q "exit=1" || rc=1
done
exit $rc
