"""Data-path lens (specs/IggyLog.tla, MC_IggyLog.tla, Trace_IggyLog.tla; harness lens `log`).
Serves C01 C02 C03 C07 C14 C16(part) C18."""
import json, os, random, time
from common import *

LENS = 'log'
TRACE_MODULE = 'Trace_IggyLog'
MSG = 61  # bytes accounted per 16-byte-payload message (45 + payload)

# configuration matrix (the "every storage configuration" quantifier); segment sizes in messages of 16-byte payloads
def cfgs_for(family, tier):
    base = dict(cache='off', cache_indexes=True, fsync=False, confirmation='wait')
    def c(thr, seg, **kw):
        d = dict(base); d.update(save_threshold=thr, segment_bytes=seg * MSG); d.update(kw); return d
    if family in ('layout', 'layout_enc', 'dedup', 'offsets', 'grpoffsets', 'autocommit'):
        m = [c(1000, 0), c(2, 0), c(1, 2), c(3, 4, cache_indexes=False), c(2, 3, cache='large'),
             c(1000, 2, fsync=True), c(1, 0, cache='large', cache_indexes=False), c(3, 2),
             # a cache of a few messages: System::append_messages evicts while the scenario runs
             c(1, 0, cache='tiny'), c(3, 4, cache='tiny'), c(1000, 0, cache='tiny')]
        if tier == 'thorough':
            m += [c(1, 3, cache_indexes=False), c(2, 4, cache='large'), c(1000, 3, cache='large'),
                  c(1, 1), c(4, 5, fsync=True, cache_indexes=False), c(2, 2, cache='large', cache_indexes=False)]
    elif family == 'retention':
        m = [c(1, 2), c(1000, 2), c(2, 3, cache_indexes=False), c(1, 1), c(3, 2, cache='large'), c(2, 2, cache='tiny')]
        if tier == 'thorough':
            m += [c(1, 3), c(2, 2, fsync=True), c(1000, 3, cache='large'), c(1, 2, cache_indexes=False)]
    else:
        raise ValueError(family)
    return m


GEN = {
    # family: (Gen cfg constants, scenario parameters)
    'layout': dict(consts=dict(NParts=1, KeySet='{"c1"}', GroupKeys='{}', DedupOn='FALSE', IdSet='{0}', MaxLen=7, MaxBatch=3,
                               MaxNow=0, ExpirySet='{0}', Threshold=2, SegCap=4,
                               Ops='{"append","flush","bg_save","restart","purge"}'),
                   parts=1, whos=['c1'], expiry=0),
    'layout_enc': None,
    'retention': dict(consts=dict(NParts=1, KeySet='{"c1"}', GroupKeys='{}', DedupOn='FALSE', IdSet='{0}', MaxLen=6, MaxBatch=2,
                                  MaxNow=3, ExpirySet='{0,1,3}', Threshold=1, SegCap=2,
                                  Ops='{"append","restart","tick","set_expiry","retention"}'),
                      parts=1, whos=['c1'], expiry=None),
    'dedup': dict(consts=dict(NParts=1, KeySet='{"c1"}', GroupKeys='{}', DedupOn='TRUE', IdSet='{0,1,2}', MaxLen=5, MaxBatch=3,
                              MaxNow=0, ExpirySet='{0}', Threshold=2, SegCap=3,
                              Ops='{"append","flush","restart"}'),
                  parts=1, whos=['c1'], expiry=0, dedup=True),
    # group life cycle with stored offsets, small alphabet so that the path cover is complete (seeded change C07_3)
    'grpoffsets': dict(consts=dict(NParts=1, KeySet='{"g1"}', GroupKeys='{"g1"}', DedupOn='FALSE', IdSet='{0}', MaxLen=2,
                                   MaxBatch=1, MaxNow=0, ExpirySet='{0}', Threshold=1000, SegCap=1000,
                                   Ops='{"append","store","group","restart"}'),
                       parts=1, whos=['c1', 'g1', 'h1'], expiry=0),
    # auto-commit of polls by offset (forwards and BACKWARDS), small alphabet so that the path cover is complete (seeded change C07_6)
    'autocommit': dict(consts=dict(NParts=1, KeySet='{"c1"}', GroupKeys='{}', DedupOn='FALSE', IdSet='{0}', MaxLen=2,
                                   MaxBatch=2, MaxNow=0, ExpirySet='{0}', Threshold=1000, SegCap=1000,
                                   Ops='{"append","poll_auto","restart"}'),
                       parts=1, whos=['c1'], expiry=0),
    'offsets': dict(consts=dict(NParts=2, KeySet='{"c1","c2","g1"}', GroupKeys='{"g1"}', DedupOn='FALSE', IdSet='{0}', MaxLen=3,
                                MaxBatch=2, MaxNow=0, ExpirySet='{0}', Threshold=1000, SegCap=1000,
                                Ops='{"append","store","del_offset","poll_next","purge","restart","group"}'),
                    parts=2, whos=['c1', 'c2', 'g1', 'h1', 'nfoo'], expiry=0),
}

GEN['layout_enc'] = dict(GEN['layout'], encryption=True)
MC_INV = ['TypeOK', 'DedupOnce', 'AllSlicesShaped', 'SegsCoverLog']
MC_PROPS = ['LogGrows', 'LoMoves', 'StoredIsolated']


def mc_family(family, tier, wd):
    """Exhaustive TLC run of the bounded instance of `family` (bigger constants in the thorough tier)."""
    g = GEN[family]
    consts = dict(g['consts'])
    consts['MaxOps'] = {'layout': 7, 'retention': 8, 'dedup': 5, 'offsets': 5, 'grpoffsets': 6, 'layout_enc': 7, 'autocommit': 6}[family] + (2 if tier == 'thorough' else 0)
    if tier == 'thorough':
        consts['MaxLen'] = consts['MaxLen'] + 2
    cfg = os.path.join(wd, f'MC_{family}.cfg')
    write_cfg(cfg, 'MCSpec', consts, invariants=MC_INV, properties=MC_PROPS, constraint='Bounded', view='View')
    t0 = time.time()
    r = tlc_mc('MC_IggyLog', cfg, wd, workers=8, timeout=1500)
    log(f'{family}: MC {r["distinct"]} distinct states in {time.time() - t0:.0f}s')
    r['consts'] = consts
    return r


def gen_scripts(family, tier, wd, seed, rnd):
    """TLC-generated input scripts: exhaustive path cover to a small depth plus simulated random walks."""
    g = GEN[family]
    out = []
    # (the number of scripts grows by a factor of 10-60 per level: the thorough tier deepens only where that stays feasible and
    #  otherwise widens the batches and multiplies the simulated walks and configurations)
    depth = {'layout': 4, 'retention': 5, 'dedup': 3, 'offsets': 3, 'grpoffsets': 4, 'layout_enc': 4, 'autocommit': 3}[family] + (1 if tier == 'thorough' and family in ('layout', 'layout_enc') else 0)
    consts = dict(g['consts']); consts['MaxOps'] = depth
    if family == 'dedup' and tier == 'quick':
        consts['MaxBatch'] = 2     # 3 ids x batches <= 3 gives 39 sends per step; the walks below keep batches of 3
    cfg = os.path.join(wd, f'Gen_{family}.cfg')
    write_cfg(cfg, 'MCSpec', consts, invariants=['EmitScript'], constraint='Bounded')
    t0 = time.time()
    paths = tlc_scripts('MC_IggyLog', cfg, wd, workers=4, timeout=2400)
    log(f'{family}: {len(paths)} path-cover scripts (depth {depth}) in {time.time() - t0:.0f}s')
    paths = [s for s in paths if len(s) >= 2]
    # simulated walks (deeper), guards respected
    consts2 = dict(g['consts']); consts2['MaxOps'] = 14 if tier == 'quick' else 24
    if family not in ('offsets', 'grpoffsets', 'autocommit'):
        consts2['MaxLen'] = 10 if tier == 'quick' else 14
    cfg2 = os.path.join(wd, f'Sim_{family}.cfg')
    write_cfg(cfg2, 'MCSpec', consts2, invariants=['EmitScript'], constraint='Bounded')
    walks = tlc_scripts('MC_IggyLog', cfg2, wd, workers=1, timeout=600,
                        simulate=(60 if tier == 'quick' else 400, consts2['MaxOps'] + 1), seed=seed)
    return paths, walks


def to_scenario(sid, family, script, cfg, seed):
    g = GEN[family]
    cfg = dict(cfg)
    cfg['encryption'] = bool(g.get('encryption'))
    cfg['dedup'] = bool(g.get('dedup')) and (seed % 7 != 0)   # every 7th dedup scenario is the "deduplication off" control
    steps = []
    expiry = g['expiry']
    for op in script:
        op = dict(op)
        if op['op'] == 'append':
            op['ids'] = list(op['ids'])
        steps.append(op)
    if expiry is None:
        expiry = (0, 1, 3)[seed % 3]
    return dict(id=sid, cfg=cfg, seed=seed, parts=g['parts'], expiry=expiry,
                payload_len=16 if cfg.get('segment_bytes', 0) else 0, sweep='full', whos=g['whos'], steps=steps,
                family=family)


def rename_whos(script, rnd):
    """The model's keys are c1/c2/g1; on the wire the same group is also addressed by name (h1) and a named consumer (nfoo)
    replaces c2 in some scenarios."""
    out = []
    for op in script:
        op = dict(op)
        if op.get('who') == 'g1' and op['op'] not in ('del_group', 'make_group') and rnd.random() < 0.4:
            op['who'] = 'h1'
        elif op.get('who') == 'c2' and rnd.random() < 0.5:
            op['who'] = 'nfoo'
        out.append(op)
    return out


REGRESSIONS = {
    # minimal scenarios of defects found (kept after their fix: a fixed entry suppresses nothing)
    'layout': [
        ('D1-accumulator-base', dict(save_threshold=2, segment_bytes=0, cache='off'),
         [{'op': 'append', 'p': 1, 'ids': [0, 0]}, {'op': 'append', 'p': 1, 'ids': [0]}]),
        ('D2-reload-base', dict(save_threshold=2, segment_bytes=0, cache='off'),
         [{'op': 'append', 'p': 1, 'ids': [0, 0]}, {'op': 'restart', 'mode': 'graceful'}, {'op': 'append', 'p': 1, 'ids': [0]}]),
        ('D3-relative-index', dict(save_threshold=1, segment_bytes=2 * MSG, cache='off'),
         [{'op': 'append', 'p': 1, 'ids': [0]}] * 4),
    ],
    'offsets': [
        ('D5-group-offset-map', dict(save_threshold=1000, segment_bytes=0, cache='off'),
         [{'op': 'append', 'p': 1, 'ids': [0, 0]}, {'op': 'store', 'who': 'g1', 'p': 1, 'o': 1},
          {'op': 'poll_next', 'who': 'c1', 'p': 1, 'n': 1, 'auto': True}]),
    ],
    'retention': [
        ('D20-first-after-retention', dict(save_threshold=1, segment_bytes=2 * MSG, cache='off'),
         [{'op': 'append', 'p': 1, 'ids': [0, 0]}, {'op': 'append', 'p': 1, 'ids': [0, 0]}, {'op': 'append', 'p': 1, 'ids': [0]},
          {'op': 'tick', 'by': 2}, {'op': 'retention'}, {'op': 'append', 'p': 1, 'ids': [0]}]),
        ('D4-all-expired-restart', dict(save_threshold=1, segment_bytes=2 * MSG, cache='off'),
         [{'op': 'append', 'p': 1, 'ids': [0, 0]}, {'op': 'append', 'p': 1, 'ids': [0, 0]}, {'op': 'tick', 'by': 2},
          {'op': 'retention'}, {'op': 'restart', 'mode': 'graceful'}, {'op': 'append', 'p': 1, 'ids': [0]},
          {'op': 'append', 'p': 1, 'ids': [0]}]),
    ],
    'dedup': [],
}


def build_scenarios(families, tier, wd, seed):
    rnd = random.Random(seed)
    scenarios = []
    gen_stats = {}
    n = 0
    for fam in families:
        paths, walks = gen_scripts(fam, tier, wd, seed, rnd)
        cfgs = cfgs_for(fam, tier)
        budget = {'quick': 150, 'thorough': 1500}[tier]   # scripts per family (sampled from the path cover), each under `per` configurations
        if fam in ('grpoffsets', 'autocommit'):
            budget = max(budget, 700)
        if len(paths) > budget:
            paths = rnd.sample(paths, budget)
        gen_stats[fam] = dict(path_cover_scripts=len(paths), simulated_walks=len(walks), configs=len(cfgs))
        per = 2 if tier == 'quick' else 3
        for s in paths + walks:
            if fam == 'layout_enc' and rnd.random() < 0.35 and any(o['op'] == 'append' for o in s):
                s = s + [dict(op='restart', mode='graceful', key='B')]
            if fam == 'offsets':
                s = rename_whos(s, rnd)
            for cfg in rnd.sample(cfgs, min(per, len(cfgs))):
                n += 1
                scenarios.append(to_scenario(f'{fam}-{n}', fam, s, cfg, rnd.randrange(1 << 30)))
        for name, cfg, steps in REGRESSIONS.get(fam, []):
            base = dict(cache='off', cache_indexes=True, fsync=False, confirmation='wait'); base.update(cfg)
            n += 1
            scenarios.append(to_scenario(f'{fam}-regress-{name}', fam, steps, base, 7))
    return scenarios, gen_stats


def shard(scenarios, nshards):
    """One process per cache configuration (the cache memory tracker is a process-global OnceLock)."""
    by_cache = {}
    for s in scenarios:
        by_cache.setdefault(s['cfg'].get('cache', 'off'), []).append(s)
    shards = []
    total = len(scenarios)
    for cache, lst in by_cache.items():
        k = max(1, round(nshards * len(lst) / max(1, total)))
        for i in range(k):
            part = lst[i::k]
            if part:
                shards.append(part)
    return shards


# which labels belong to which property (X.* = server died / request failed: every property of the lens reports it)
LABELS = {
    'C01': ('C01.',),
    'C02': ('C02.', 'C07.next'),   # 'next' is one of C02's slices ("the n following the consumer's stored offset")
    'C03': ('C03.',),
    'C07': ('C07.',),
    'C14': ('C14.',),
    'C16': ('C16.',),
    'C18': ('C18.',),
    'C19': ('C19.', 'C01.', 'C02.', 'C16.'),
}
FAMILIES = {
    'C01': ['layout', 'retention', 'dedup'],
    'C02': ['layout', 'retention'],
    'C03': ['layout', 'offsets', 'retention', 'dedup'],
    'C07': ['offsets', 'grpoffsets', 'autocommit'],
    'C14': ['retention'],
    'C18': ['dedup'],
    'C19': ['layout_enc'],
}


def attribute(prop, scn, events_bad):
    """events_bad: {step index i: (ev, labels)} of one scenario (only steps with labels).
    Returns list of (i, ev, label) that count as violations of `prop`."""
    out = []
    steps = scn['steps']
    for i, (ev, labels) in sorted(events_bad.items()):
        for lab in labels:
            name = lab[0]
            if name.startswith('X.'):
                out.append((i, ev, lab))
            elif prop == 'C03':
                # a disagreement that appears with a restart (or with the step right after one) and was not there before it
                if name.startswith('C03.'):
                    out.append((i, ev, lab))
                    continue
                j = i if ev == 'restart' else (i - 1 if i >= 2 and steps[i - 2]['op'] == 'restart' else None)
                if j is None:
                    continue
                before = events_bad.get(j - 1, (None, []))[1]
                if not any(b[0] == name and b[1:2] == lab[1:2] for b in before):
                    out.append((i, ev, lab))
            elif prop == 'C14' and (name.startswith('C01.') or name.startswith('C02.')):
                # "every message that was not deleted is still served exactly as before", "continues at the next offset"
                j = i if ev == 'retention' else (i - 1 if i >= 2 and steps[i - 2]['op'] == 'retention' else None)
                if j is None:
                    continue
                before = events_bad.get(j - 1, (None, []))[1]
                if not any(b[0] == name and b[1:2] == lab[1:2] for b in before):
                    out.append((i, ev, lab))
            elif any(name.startswith(p) for p in LABELS[prop]):
                out.append((i, ev, lab))
    return out


def nontrivial(prop, scn, trace_events):
    """Per-property rule for a non-trivial scenario, evaluated on the recorded trace of the scenario."""
    ops = [s['op'] for s in scn['steps']]
    def after(kind):
        return any(ops[i] == kind and 'append' in ops[i + 1:] for i in range(len(ops)))
    if prop == 'C01':
        return after('restart') or after('retention') or after('purge')
    if prop == 'C02':
        # some poll is answered from >= 2 segments or from disk+buffer (read off the projection)
        for e in trace_events:
            for pp in e.get('post', []):
                segs = pp['segs']
                if len(segs) >= 2 or any(0 < s['unsaved'] < (s['cur'] - s['start'] + 1) for s in segs if s['bytes'] > 0):
                    return True
        return False
    if prop == 'C03':
        for k, e in enumerate(trace_events):
            if e['ev'] == 'restart' and k > 0:
                prev = trace_events[k - 1].get('post', [])
                if any(pp['unsaved'] > 0 or len(pp['segs']) >= 2 for pp in prev):
                    return True
        return False
    if prop == 'C07':
        return any(o in ops for o in ('store', 'poll_next')) and len({s.get('who') for s in scn['steps'] if s.get('who')}) >= 2
    if prop == 'C14':
        for k, e in enumerate(trace_events):
            if e['ev'] == 'retention' and k > 0:
                a = sum(len(pp['segs']) for pp in trace_events[k - 1].get('post', []))
                b = [pp['segs'] for pp in e.get('post', [])]
                if b and [s['start'] for s in b[0]] != [s['start'] for s in trace_events[k - 1]['post'][0]['segs']]:
                    return True
        return False
    if prop == 'C19':
        return any(e['ev'] == 'restart' for e in trace_events) or any(len(pp['segs']) >= 2 for e in trace_events for pp in e.get('post', []))
    if prop == 'C18':
        seen = set()
        for s in scn['steps']:
            if s['op'] == 'append':
                for i in s['ids']:
                    if i != 0 and i in seen:
                        return True
                    seen.add(i)
        return False
    return True

RULES = {
    'C01': 'scenario contains an append after a restart, a retention pass or a purge',
    'C02': 'at some step the partition has >= 2 segments or a segment partly on disk and partly in the unsaved buffer',
    'C03': 'a restart taken while a buffer was unsaved or >= 2 segments existed',
    'C07': 'store/poll_next steps by >= 2 different identities',
    'C14': 'a retention pass that changed the segment list',
    'C18': 'a message id repeated within the scenario',
    'C19': 'encrypted scenario with messages stored in >= 2 segments or restarted (also with a different key)',
}
ASSUMPTIONS = ['segment layout, cache window and server-assigned ids/timestamps are read off the recorded projection '
               '(implementation freedom), everything else is predicted by the specification',
               'wait-confirmation only in this lens; no-wait and concurrency are C12']
